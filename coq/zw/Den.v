(* The specification: what a Zwerg expression means for ONE input stack, read
   off doc/syntax.rst.  No operator state, no pulling: an expression maps a
   stack (and the lexical environment) to the list of stacks it yields,
   diagnostics interleaved.  A stream of input stacks means, by definition,
   the concatenation of the results for each stack (see `den_stream`).
   No proofs in this file. *)
From Coq Require Import ZArith NArith List Bool.
From Dwgrep Require Import Radix Value Words Tree Engine Build.
Import ListNotations.

Module DenM.

Definition denv := list (name * value).          (* innermost binding first *)

Inductive dev := DOut (s : stack) (e : denv) | DSoft (k : soft).

(* events so far; `aborted` = an exception ended the evaluation there *)
Inductive dres := DFuel | DStuck | DOk (evs : list dev) (aborted : bool).

Definition ok (evs : list dev) : dres := DOk evs false.
Definition abort : dres := DOk [] true.

Fixpoint dlookup (e : denv) (n : name) : option value :=
  match e with
  | [] => None
  | (k, v) :: t => if bytes_eqb k n then Some v else dlookup t n
  end.

(* the evaluator gives up (DFuel) on result lists longer than this: it is
   eager, and only used on programs whose results are compared in full *)
Definition event_cap : nat := 3000.

(* a, then b unless a aborted *)
Definition seq (a b : dres) : dres :=
  match a with
  | DOk ea false =>
    match b with
    | DOk eb ab => if Nat.ltb event_cap (length ea + length eb) then DFuel else DOk (ea ++ eb) ab
    | o => o
    end
  | o => o
  end.

(* feed every yielded stack of r, in order, to k *)
Definition bind_outs (r : dres) (k : stack -> denv -> dres) : dres :=
  match r with
  | DOk evs ab =>
    (fix go (evs : list dev) : dres :=
       match evs with
       | [] => DOk [] ab
       | DSoft s :: t => seq (ok [DSoft s]) (go t)
       | DOut st e :: t => seq (k st e) (go t)
       end) evs
  | o => o
  end.

(* bindings made inside do not escape *)
Definition scoped (env : denv) (r : dres) : dres :=
  match r with
  | DOk evs ab => DOk (map (fun ev => match ev with DOut s _ => DOut s env | o => o end) evs) ab
  | o => o
  end.

Definition softs (l : list soft) : list dev := map DSoft l.

(* contexts that only ask "does it yield anything" pull one result: what
   happens up to the first yielded stack *)
Fixpoint upto_first (evs : list dev) : list soft * option (stack * denv) :=
  match evs with
  | [] => ([], None)
  | DOut s e :: _ => ([], Some (s, e))
  | DSoft k :: t => let '(pre, o) := upto_first t in (k :: pre, o)
  end.

(* the captured environment travels inside the closure value: one
   [name, value] pair per visible binding *)
Definition encode_env (e : denv) : list value :=
  map (fun nv => VSeq [VStr (fst nv) 0; snd nv] 0) e.
Definition decode_env (l : list value) : denv :=
  flat_map (fun v => match v with VSeq [VStr n _; x] _ => [(n, x)] | _ => [] end) l.

Fixpoint find_block (t : tree) (id : N) {struct t} : option tree :=
  let fix first (l : list tree) : option tree :=
      match l with
      | [] => None
      | x :: r => match find_block x id with Some b => Some b | None => first r end
      end in
  match t with
  | TBlock i b => if N.eqb i id then Some b else find_block b id
  | TCat l | TAlt l | TOr l | TFormat l => first l
  | TCapture c | TSubx _ c | TScope c | TStar c | TPlus c | TAssert c | TPredNot c | TPredSubx c => find_block c id
  | TIfElse c a b => first [c; a; b]
  | TPredAnd a b | TPredOr a b => first [a; b]
  | _ => None
  end.

Fixpoint unseen (outs : list stack) (seen : list stack) : list stack * list stack :=
  match outs with
  | [] => ([], seen)
  | o :: t =>
    if seen_mem o seen then unseen t seen
    else let '(n, s') := unseen t (o :: seen) in (o :: n, s')
  end.

Definition outs_of (evs : list dev) : list stack :=
  flat_map (fun ev => match ev with DOut s _ => [s] | _ => [] end) evs.

(* The closure operators: a work list, last found first.  `step` is the body
   (one application of E to a stack); `g` bounds the number of expansions.
   A stack is yielded when it is first found, and expanded later. *)
Section Closure.
  Variable step : stack -> dres.
  Variable env : denv.

  (* events of one expansion: diagnostics in place, new stacks where found *)
  Fixpoint mark (evs : list dev) (seen : list stack) : list dev * list stack * list stack :=
    match evs with
    | [] => ([], [], seen)
    | DSoft k :: r => let '(o, fresh, seen') := mark r seen in (DSoft k :: o, fresh, seen')
    | DOut s _ :: r =>
      if seen_mem s seen then mark r seen
      else let '(o, fresh, seen') := mark r (s :: seen) in (DOut s env :: o, s :: fresh, seen')
    end.

  Fixpoint closure_loop (g : nat) (work seen : list stack) : dres :=
    match g with
    | O => DFuel
    | S g' =>
      match work with
      | [] => ok []
      | s :: rest =>
        match step s with
        | DOk evs ab =>
          let '(out, fresh, seen') := mark evs seen in
          if ab then DOk out true
          else seq (ok out) (closure_loop g' (rev fresh ++ rest) seen')
        | o => o
        end
      end
    end.
End Closure.

Section Den.
  Variable P : params.
  Variable prog : tree.                            (* the whole program: where block bodies live *)

  Definition word_events (env : denv) (r : wres) : dres :=
    match r with
    | WAbort => abort
    | WOut outs errs => ok (softs errs ++ map (fun s => DOut s env) outs)
    end.

  Fixpoint den (f : nat) (t : tree) (env : denv) (stk : stack) {struct f} : dres :=
    match f with
    | O => DFuel
    | S f' =>
      let apply_closure (blk : N) (cenv : list value) (rest : stack) : dres :=
          match find_block prog blk with
          | Some body => scoped env (den f' body (decode_env cenv) rest)
          | None => DStuck
          end in
      match t with
      | TCat l =>
        (fix go (l : list tree) (env : denv) (stk : stack) : dres :=
           match l with
           | [] => ok [DOut stk env]
           | c :: r => bind_outs (den f' c env stk) (fun s e => go r e s)
           end) l env stk

      | TAlt l =>
        (fix go (l : list tree) : dres :=
           match l with
           | [] => ok []
           | c :: r => seq (scoped env (den f' c env stk)) (go r)
           end) l

      | TOr l =>
        (fix go (l : list tree) : dres :=
           match l with
           | [] => ok []
           | c :: r =>
             match scoped env (den f' c env stk) with
             | DOk evs ab =>
               match outs_of evs with
               | [] => seq (DOk evs ab) (go r)
               | _ => DOk evs ab
               end
             | o => o
             end
           end) l

      | TCapture c =>
        match den f' c env stk with
        | DOk evs ab =>
          (fix go (evs : list dev) (acc : list value) : dres :=
             match evs with
             | [] => if ab then abort else ok [DOut (VSeq acc 0 :: stk) env]
             | DSoft k :: r => seq (ok [DSoft k]) (go r acc)
             | DOut (v :: _) _ :: r => go r (acc ++ [v])
             | DOut [] _ :: _ => abort
             end) evs []
        | o => o
        end

      | TSubx keep c =>
        bind_outs (den f' c env stk)
                  (fun s _ => match subx_result keep s stk with
                              | Some out => ok [DOut out env]
                              | None => abort
                              end)

      | TIfElse c a b =>
        (* the condition is only asked whether it yields anything *)
        match den f' c env stk with
        | DOk evs ab =>
          let '(pre, o) := upto_first evs in
          match o with
          | Some _ => seq (ok (softs pre)) (scoped env (den f' a env stk))
          | None => if ab then DOk (softs pre) true else seq (ok (softs pre)) (scoped env (den f' b env stk))
          end
        | o => o
        end

      | TScope c => scoped env (den f' c env stk)

      | TBlock id _ => ok [DOut (VClo id (encode_env env) 0 :: stk) env]

      | TBind n =>
        match stk with
        | v :: r => ok [DOut r ((n, v) :: env)]
        | [] => abort
        end

      | TRead n =>
        match dlookup env n with
        | Some (VClo blk cenv _) => apply_closure blk cenv stk
        | Some v => ok [DOut (v :: stk) env]
        | None =>
          match assoc (voc_table (p_tc P)) n with
          | Some (BIExec WApply) =>
            match stk with
            | VClo blk cenv _ :: rest => apply_closure blk cenv rest
            | _ :: _ => ok [DSoft SErr]
            | [] => abort
            end
          | Some (BIExec w) => word_events env (run_word P w stk)
          | Some (BIPred positive w) =>
            match run_pred P w stk with
            | None => abort
            | Some (r, errs) =>
              let r' := if positive then r else pnot r in
              ok (softs errs ++ match r' with PYes => [DOut stk env] | _ => [] end)
            end
          | None => DStuck
          end
        end

      | TNop | TDebug => ok [DOut stk env]

      | TStar c =>
        seq (ok [DOut stk env]) (closure_loop (den f' c env) env f' [stk] [stk])

      | TPlus c => closure_loop (den f' c env) env f' [stk] []

      | TAssert p =>
        match peval f' p env stk with
        | inl (r, errs) => ok (softs errs ++ match r with PYes => [DOut stk env] | _ => [] end)
        | inr o => o
        end

      | TEmptyList => ok [DOut (VSeq [] 0 :: stk) env]
      | TConst z d => ok [DOut (VCst z d 0 :: stk) env]
      | TStr s => ok [DOut (VStr s 0 :: stk) env]

      | TFormat l =>
        (* splices are resolved right to left; the leftmost varies fastest; they are
           plain context: what a splice binds is seen by the splices to its left and
           after the string.
           A pending result is a stack with the string built so far on top
           (position 0 until the final numbering). *)
        let fix fmt (parts : list tree) : dres :=
            match parts with
            | [] => ok [DOut (VStr [] 0 :: stk) env]
            | part :: rest =>
              bind_outs (fmt rest)
                        (fun s1 e1 =>
                           match s1 with
                           | VStr suffix _ :: s1' =>
                             match part with
                             | TStr lit => ok [DOut (VStr (lit ++ suffix) 0 :: s1') e1]
                             | _ =>
                               bind_outs (den f' part e1 s1')
                                         (fun s2 e2 =>
                                            match s2 with
                                            | v :: s2' => ok [DOut (VStr (show (p_tc P) v ++ suffix) 0 :: s2') e2]
                                            | [] => abort
                                            end)
                             end
                           | _ => DStuck
                           end)
            end in
        match fmt l with
        | DOk evs ab =>
          DOk ((fix num (evs : list dev) (i : N) : list dev :=
                  match evs with
                  | [] => []
                  | DOut (VStr str _ :: s) e :: t => DOut (VStr str i :: s) e :: num t (i + 1)%N
                  | ev :: t => ev :: num t i
                  end) evs 0%N) ab
        | o => o
        end

      | TBuiltin (BPredPos positive n) =>
        match stk with
        | v :: _ => if Bool.eqb (N.eqb (vpos v) n) positive then ok [DOut stk env] else ok []
        | [] => abort
        end
      | TBuiltin (BDropBelow n) => word_events env (run_word P (WDropBelow n) stk)

      | TPredAnd _ _ | TPredOr _ _ | TPredNot _ | TPredSubx _ => DStuck
      end
    end

  (* predicates: (three-valued result, diagnostics) or a failure of the whole evaluation *)
  with peval (f : nat) (p : tree) (env : denv) (stk : stack) {struct f} : (pres * list soft) + dres :=
    match f with
    | O => inr DFuel
    | S f' =>
      match p with
      | TPredNot a =>
        match peval f' a env stk with
        | inl (r, e) => inl (pnot r, e)
        | o => o
        end
      | TPredAnd a b =>
        match peval f' a env stk with
        | inl (ra, ea) =>
          match peval f' b env stk with
          | inl (rb, eb) => inl (pand ra rb, ea ++ eb)
          | o => o
          end
        | o => o
        end
      | TPredOr a b =>
        match peval f' a env stk with
        | inl (ra, ea) =>
          match peval f' b env stk with
          | inl (rb, eb) => inl (por ra rb, ea ++ eb)
          | o => o
          end
        | o => o
        end
      | TPredSubx c =>
        match den f' c env stk with
        | DOk evs ab =>
          let '(pre, o) := upto_first evs in
          match o with
          | Some _ => inl (PYes, pre)
          | None => if ab then inr (DOk (softs pre) true) else inl (PNo, pre)
          end
        | o => inr o
        end
      | TBuiltin (BPredPos positive n) =>
        match stk with
        | v :: _ => inl (pres_of_bool (Bool.eqb (N.eqb (vpos v) n) positive), [])
        | [] => inr abort
        end
      | _ => inr DStuck
      end
    end.

  (* the meaning for a stream of input stacks: each stack on its own *)
  Definition den_stream (f : nat) (t : tree) (inputs : list stack) : dres :=
    fold_left (fun acc s => seq acc (den f t [] s)) inputs (ok []).

End Den.

End DenM.
Export DenM.
