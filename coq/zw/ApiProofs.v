(* Executions of one query never influence one another: what result set r is
   told in any history equals what it is told when the operations on the other
   result sets are removed. *)
From Coq Require Import ZArith NArith List Bool Lia.
From Dwgrep Require Import Radix Value Words Tree Engine Build Api.
Import ListNotations.

Section Proofs.
  Variable P : params.
  Variable blks : list mach.
  Variable prog : mach.
  Variable fuel : nat.

  Notation step := (step P blks prog fuel).
  Notation run_hist := (run_hist P blks prog fuel).

  Lemma tget_tdel_other t r k : r <> k -> tget (tdel t k) r = tget t r.
  Proof.
    intros N. induction t as [|[j s] t IH]; cbn; auto.
    destruct (Nat.eqb_spec j k).
    - subst. destruct (Nat.eqb_spec k r); [congruence|]. auto.
    - cbn. destruct (Nat.eqb_spec j r); auto.
  Qed.

  Lemma tget_tdel_same t r : tget (tdel t r) r = None.
  Proof.
    induction t as [|[j s] t IH]; cbn; auto.
    destruct (Nat.eqb_spec j r); auto. cbn. destruct (Nat.eqb_spec j r); [congruence|auto].
  Qed.

  Lemma tget_tset_other t r k s : r <> k -> tget (tset t k s) r = tget t r.
  Proof.
    intros N. unfold tset. cbn. destruct (Nat.eqb_spec k r); [congruence|]. apply tget_tdel_other; auto.
  Qed.

  Lemma tget_tset_same t r s : tget (tset t r s) r = Some s.
  Proof. unfold tset. cbn. rewrite Nat.eqb_refl. auto. Qed.

  (* an operation on another result set leaves r's state alone and tells r nothing *)
  Lemma step_other t o r : concerns r o = false ->
    tget (fst (step t o)) r = tget t r /\
    match snd (step t o) with Some (k, _) => k <> r | None => True end.
  Proof.
    intros C. destruct o as [k input|k|k]; cbn [concerns] in C; apply Nat.eqb_neq in C; cbn [step].
    - cbn [fst snd]. split; auto. apply tget_tset_other; auto.
    - destruct (tget t k) as [s|]; cbn [fst snd]; [|split; auto].
      destruct (pull1 P blks fuel s) as [a [s'|]]; cbn [fst snd]; split; auto.
      + apply tget_tset_other; auto.
      + apply tget_tdel_other; auto.
    - cbn [fst snd]. split; auto. apply tget_tdel_other; auto.
  Qed.

  (* an operation on r itself depends only on r's state *)
  Lemma step_same t t' o r : concerns r o = true -> tget t r = tget t' r ->
    tget (fst (step t o)) r = tget (fst (step t' o)) r /\ snd (step t o) = snd (step t' o).
  Proof.
    intros C E. destruct o as [k input|k|k]; cbn [concerns] in C; apply Nat.eqb_eq in C; subst k; cbn [step].
    - cbn [fst snd]. rewrite !tget_tset_same. auto.
    - rewrite E. destruct (tget t' r) as [s|] eqn:G; cbn [fst snd]; [|split; [congruence|auto]].
      destruct (pull1 P blks fuel s) as [a [s'|]]; cbn [fst snd].
      + rewrite !tget_tset_same. auto.
      + rewrite !tget_tdel_same. auto.
    - cbn [fst snd]. rewrite !tget_tdel_same. auto.
  Qed.

  Theorem history_projection r : forall h t t',
    tget t r = tget t' r ->
    answers_for r (run_hist t h) = answers_for r (run_hist t' (filter (concerns r) h)).
  Proof.
    induction h as [|o h IH]; intros t t' E; cbn [run_hist filter]; auto.
    destruct (concerns r o) eqn:C.
    - cbn [run_hist]. destruct (step_same t t' o r C E) as [E' A].
      destruct (step t o) as [t1 a1], (step t' o) as [t1' a1']. cbn in E', A. subst a1'.
      destruct a1 as [[k a]|].
      + unfold answers_for. cbn [filter fst]. destruct (Nat.eqb k r); cbn [map]; [f_equal|]; apply IH; auto.
      + apply IH; auto.
    - destruct (step_other t o r C) as [E' A].
      destruct (step t o) as [t1 a1]. cbn in E', A.
      destruct a1 as [[k a]|].
      + unfold answers_for. cbn [filter fst]. destruct (Nat.eqb_spec k r); [congruence|].
        apply IH. congruence.
      + apply IH. congruence.
  Qed.
End Proofs.
