(* Executions of one query never influence one another: what result set r is
   told in any history equals what it is told when the operations on the other
   result sets are removed. *)
From Coq Require Import ZArith NArith List Bool Lia.
From Dwgrep Require Import Radix Value Words Tree Engine Build Api.
Import ListNotations.

Section Proofs.
  Variable P : params.
  Variable blks : list mach.
  Variable prog : mach.
  Variable fuel : nat.

  Notation step := (step P blks prog fuel).
  Notation run_hist := (run_hist P blks prog fuel).

  Lemma tget_tdel_other t r k : r <> k -> tget (tdel t k) r = tget t r.
  Proof.
    intros N. induction t as [|[j s] t IH]; cbn; auto.
    destruct (Nat.eqb_spec j k).
    - subst. destruct (Nat.eqb_spec k r); [congruence|]. auto.
    - cbn. destruct (Nat.eqb_spec j r); auto.
  Qed.

  Lemma tget_tdel_same t r : tget (tdel t r) r = None.
  Proof.
    induction t as [|[j s] t IH]; cbn; auto.
    destruct (Nat.eqb_spec j r); auto. cbn. destruct (Nat.eqb_spec j r); [congruence|auto].
  Qed.

  Lemma tget_tset_other t r k s : r <> k -> tget (tset t k s) r = tget t r.
  Proof.
    intros N. unfold tset. cbn. destruct (Nat.eqb_spec k r); [congruence|]. apply tget_tdel_other; auto.
  Qed.

  Lemma tget_tset_same t r s : tget (tset t r s) r = Some s.
  Proof. unfold tset. cbn. rewrite Nat.eqb_refl. auto. Qed.

  (* an operation on another result set leaves r's state alone and tells r nothing *)
  Lemma step_other t o r : concerns r o = false ->
    tget (fst (step t o)) r = tget t r /\
    match snd (step t o) with Some (k, _) => k <> r | None => True end.
  Proof.
    intros C. destruct o as [k input|k|k]; cbn [concerns] in C; apply Nat.eqb_neq in C; cbn [step].
    - cbn [fst snd]. split; auto. apply tget_tset_other; auto.
    - destruct (tget t k) as [s|]; cbn [fst snd]; [|split; auto].
      destruct (pull1 P blks fuel s) as [a [s'|]]; cbn [fst snd]; split; auto.
      + apply tget_tset_other; auto.
      + apply tget_tdel_other; auto.
    - cbn [fst snd]. split; auto. apply tget_tdel_other; auto.
  Qed.

  (* an operation on r itself depends only on r's state *)
  Lemma step_same t t' o r : concerns r o = true -> tget t r = tget t' r ->
    tget (fst (step t o)) r = tget (fst (step t' o)) r /\ snd (step t o) = snd (step t' o).
  Proof.
    intros C E. destruct o as [k input|k|k]; cbn [concerns] in C; apply Nat.eqb_eq in C; subst k; cbn [step].
    - cbn [fst snd]. rewrite !tget_tset_same. auto.
    - rewrite E. destruct (tget t' r) as [s|] eqn:G; cbn [fst snd]; [|split; [congruence|auto]].
      destruct (pull1 P blks fuel s) as [a [s'|]]; cbn [fst snd].
      + rewrite !tget_tset_same. auto.
      + rewrite !tget_tdel_same. auto.
    - cbn [fst snd]. rewrite !tget_tdel_same. auto.
  Qed.

  Theorem history_projection r : forall h t t',
    tget t r = tget t' r ->
    answers_for r (run_hist t h) = answers_for r (run_hist t' (filter (concerns r) h)).
  Proof.
    induction h as [|o h IH]; intros t t' E; cbn [run_hist filter]; auto.
    destruct (concerns r o) eqn:C.
    - cbn [run_hist]. destruct (step_same t t' o r C E) as [E' A].
      destruct (step t o) as [t1 a1], (step t' o) as [t1' a1']. cbn in E', A. subst a1'.
      destruct a1 as [[k a]|].
      + unfold answers_for. cbn [filter fst]. destruct (Nat.eqb k r); cbn [map]; [f_equal|]; apply IH; auto.
      + apply IH; auto.
    - destruct (step_other t o r C) as [E' A].
      destruct (step t o) as [t1 a1]. cbn in E', A.
      destruct a1 as [[k a]|].
      + unfold answers_for. cbn [filter fst]. destruct (Nat.eqb_spec k r); [congruence|].
        apply IH. congruence.
      + apply IH. congruence.
  Qed.

  (* ---- what one result set sees: its own operations, nothing else ---- *)

  Inductive lop := LExec (input : stack) | LPull | LDestroy.

  Definition view1 (r : nat) (o : op) : option lop :=
    match o with
    | Execute k i => if Nat.eqb k r then Some (LExec i) else None
    | Pull k => if Nat.eqb k r then Some LPull else None
    | Destroy k => if Nat.eqb k r then Some LDestroy else None
    end.

  Fixpoint view (r : nat) (h : list op) : list lop :=
    match h with
    | [] => []
    | o :: h' => match view1 r o with Some l => l :: view r h' | None => view r h' end
    end.

  (* one result set on its own: no table, no identifiers *)
  Fixpoint run_local (st : option rstate) (l : list lop) : list answer :=
    match l with
    | [] => []
    | LExec i :: l' => run_local (Some (prog, LOrigin (Some i), [])) l'
    | LDestroy :: l' => run_local None l'
    | LPull :: l' =>
      match st with
      | None => ANoSuch :: run_local None l'
      | Some s => let '(a, st') := pull1 P blks fuel s in a :: run_local st' l'
      end
    end.

  Lemma view1_concerns r o : concerns r o = false <-> view1 r o = None.
  Proof. destruct o as [k i|k|k]; cbn; destruct (Nat.eqb k r); split; congruence. Qed.

  Theorem history_is_local r : forall h t,
    answers_for r (run_hist t h) = run_local (tget t r) (view r h).
  Proof.
    induction h as [|o h IH]; intros t; cbn [run_hist view]; auto.
    destruct (concerns r o) eqn:C.
    - destruct o as [k i|k|k]; cbn [concerns] in C; apply Nat.eqb_eq in C; subst k;
        cbn [view1 step]; rewrite Nat.eqb_refl.
      + cbn [run_local]. rewrite IH, tget_tset_same. reflexivity.
      + destruct (tget t r) as [st|] eqn:G.
        * cbn [run_local]. destruct (pull1 P blks fuel st) as [a [st'|]].
          -- unfold answers_for. cbn [filter fst]. rewrite Nat.eqb_refl. cbn [map snd]. f_equal.
             fold (answers_for r (run_hist (tset t r st') h)). rewrite IH, tget_tset_same. reflexivity.
          -- unfold answers_for. cbn [filter fst]. rewrite Nat.eqb_refl. cbn [map snd]. f_equal.
             fold (answers_for r (run_hist (tdel t r) h)). rewrite IH, tget_tdel_same. reflexivity.
        * cbn [run_local]. unfold answers_for. cbn [filter fst]. rewrite Nat.eqb_refl. cbn [map snd]. f_equal.
          fold (answers_for r (run_hist t h)). rewrite IH, G. reflexivity.
      + cbn [run_local]. rewrite IH, tget_tdel_same. reflexivity.
    - pose proof (proj1 (view1_concerns r o) C) as V. rewrite V.
      destruct (step_other t o r C) as [E' A].
      destruct (step t o) as [t1 a1]. cbn [fst snd] in E', A.
      destruct a1 as [[k a]|].
      + unfold answers_for. cbn [filter fst]. destruct (Nat.eqb_spec k r); [congruence|].
        fold (answers_for r (run_hist t1 h)). rewrite IH, E'. reflexivity.
      + rewrite IH, E'. reflexivity.
  Qed.

  (* two executions - in the same history or in different ones, under any
     identifiers, whatever else went on - that were driven the same way were
     told the same *)
  Corollary same_view_same_answers r1 r2 h1 h2 t1 t2 :
    tget t1 r1 = tget t2 r2 -> view r1 h1 = view r2 h2 ->
    answers_for r1 (run_hist t1 h1) = answers_for r2 (run_hist t2 h2).
  Proof. intros E V. rewrite !history_is_local, E, V. reflexivity. Qed.

  (* a fresh parse-and-run on `input`, pulled n times *)
  Definition fresh_run (input : stack) (n : nat) : list answer :=
    run_local None (LExec input :: repeat LPull n).

  Corollary as_a_fresh_run r h t input n :
    view r h = LExec input :: repeat LPull n ->
    answers_for r (run_hist t h) = fresh_run input n.
  Proof. intros V. rewrite history_is_local, V. reflexivity. Qed.

  (* the input stack handed to execute is a value: no operation can change it *)
  Lemma run_local_app st l1 l2 :
    run_local st l1 ++ run_local (fold_left (fun st o =>
        match o with
        | LExec i => Some (prog, LOrigin (Some i), [])
        | LDestroy => None
        | LPull => match st with None => None | Some s => snd (pull1 P blks fuel s) end
        end) l1 st) l2 = run_local st (l1 ++ l2).
  Proof.
    revert st. induction l1 as [|o l1 IH]; intros st; cbn [app fold_left run_local]; auto.
    destruct o; auto.
    destruct st as [s|]; [|cbn [app]; f_equal; apply IH].
    destruct (pull1 P blks fuel s) as [a st'] eqn:E. cbn [snd app]. f_equal. apply IH.
  Qed.

  (* abandoning a result set and executing again on the same input starts over:
     the prefix pulled before has no influence *)
  Corollary reexecute_starts_over r h t l input n :
    view r h = l ++ LExec input :: repeat LPull n ->
    exists before, answers_for r (run_hist t h) = before ++ fresh_run input n.
  Proof.
    intros V. rewrite history_is_local, V, <- run_local_app.
    eexists. f_equal.
  Qed.
End Proofs.
