(* tree::simplify (Simplify.v) does not change what a program means: if the
   program as written evaluates to a list of results (complete, or ended by an
   exception), the simplified program - with the simplified block bodies -
   evaluates to the same list.  Proved on the uncapped twin of the
   specification (DenU.v) and transferred to Den.den at the end. *)
From Coq Require Import ZArith NArith List Bool Arith Lia.
From Dwgrep Require Import Radix Value Words Tree Engine Build Den DenMono DenU DenUProofs Simplify.
Import ListNotations.

(* r1 finished properly => r2 is the same *)
Definition dle (r1 r2 : dres) : Prop := forall evs ab, r1 = DOk evs ab -> r2 = DOk evs ab.

Lemma dle_refl r : dle r r.
Proof. intros evs ab H; exact H. Qed.
Lemma dle_trans a b c : dle a b -> dle b c -> dle a c.
Proof. intros H1 H2 evs ab H. apply H2. apply H1. exact H. Qed.
Lemma dle_of_eq a b : a = b -> dle a b.
Proof. intros ->. apply dle_refl. Qed.
Lemma dle_of_rle a b : rle a b -> dle a b.
Proof. intros [-> | ->]; [intros evs ab H; discriminate|apply dle_refl]. Qed.

(* ---- congruences ---- *)
Lemma seqU_dle a a' b b' : dle a a' -> dle b b' -> dle (seqU a b) (seqU a' b').
Proof.
  intros Ha Hb evs ab H. destruct a as [| |ea aba]; cbn [seqU] in H; try discriminate.
  rewrite (Ha ea aba eq_refl). destruct aba; [exact H|].
  destruct b as [| |eb abb]; try discriminate. rewrite (Hb eb abb eq_refl). exact H.
Qed.

Lemma bindU_dle r r' k k' : dle r r' -> (forall s e, dle (k s e) (k' s e)) -> dle (bind_outsU r k) (bind_outsU r' k').
Proof.
  intros Hr Hk. destruct r as [| |evs ab]; try (intros ? ? H; discriminate H).
  rewrite (Hr evs ab eq_refl). cbn [bind_outsU]. clear Hr.
  induction evs as [|ev evs IH]; [apply dle_refl|].
  destruct ev as [s e|k0]; apply seqU_dle; auto; apply dle_refl.
Qed.

Lemma scoped_dle env r r' : dle r r' -> dle (scoped env r) (scoped env r').
Proof.
  intros H. destruct r as [| |evs ab]; try (intros ? ? E; discriminate E).
  rewrite (H evs ab eq_refl). apply dle_refl.
Qed.

Lemma closure_loopU_dle (step step' : stack -> dres) env :
  (forall s, dle (step s) (step' s)) ->
  forall g work seen, dle (closure_loopU step env g work seen) (closure_loopU step' env g work seen).
Proof.
  intros Hs. induction g as [|g IH]; intros work seen; [intros ? ? E; discriminate E|].
  cbn [closure_loopU]. destruct work as [|s rest]; [apply dle_refl|].
  destruct (step s) as [| |evs ab] eqn:E; try (intros ? ? E'; discriminate E').
  rewrite (Hs s evs ab E).
  destruct (mark env evs seen) as [[out fresh] seen'].
  destruct ab; [apply dle_refl|].
  apply seqU_dle; [apply dle_refl|]. apply IH.
Qed.

(* ---- algebra of the uncapped combinators ---- *)
Lemma seqU_assoc a b c : seqU (seqU a b) c = seqU a (seqU b c).
Proof.
  destruct a as [| |ea [|]]; try reflexivity.
  destruct b as [| |eb [|]]; try reflexivity.
  destruct c as [| |ec abc]; try reflexivity.
  cbn. rewrite app_assoc. reflexivity.
Qed.

Lemma seqU_nil_l b : seqU (DOk [] false) b = b.
Proof. destruct b; reflexivity. Qed.

Lemma seqU_nil_r a : seqU a (DOk [] false) = a.
Proof. destruct a as [| |ea [|]]; try reflexivity. cbn. rewrite app_nil_r. reflexivity. Qed.

(* a result that is not a clean `DOk _ false` absorbs what follows *)
Definition unclean (r : dres) : Prop := forall e, r <> DOk e false.

Lemma seqU_unclean a b : unclean a -> seqU a b = a.
Proof. intros H. destruct a as [| |ea [|]]; try reflexivity. exfalso. apply (H ea). reflexivity. Qed.

Lemma bindU_aborted_unclean evs k : unclean (bind_outsU (DOk evs true) k).
Proof.
  cbn [bind_outsU]. induction evs as [|ev evs IH]; [intros e H; discriminate H|].
  assert (forall x, unclean (seqU x
     ((fix go (evs0 : list dev) : dres :=
         match evs0 with
         | [] => DOk [] true
         | DOut st e :: t => seqU (k st e) (go t)
         | DSoft s :: t => seqU (ok [DSoft s]) (go t)
         end) evs))) as A.
  { intros x e H. destruct x as [| |ex [|]]; cbn [seqU] in H; try discriminate.
    match type of H with match ?Y with _ => _ end = _ => destruct Y as [| |ey aby] eqn:EY; try discriminate end.
    inversion H; subst. apply (IH (ey)). reflexivity. }
  destruct ev as [s e|k0]; apply A.
Qed.

Lemma bindU_ret r : bind_outsU r (fun s e => ok [DOut s e]) = r.
Proof.
  destruct r as [| |evs ab]; try reflexivity. cbn [bind_outsU].
  induction evs as [|ev evs IH]; [reflexivity|].
  destruct ev as [s e|k0]; rewrite IH; reflexivity.
Qed.

Lemma bindU_ext r k k' : (forall s e, k s e = k' s e) -> bind_outsU r k = bind_outsU r k'.
Proof.
  intros H. destruct r as [| |evs ab]; try reflexivity. cbn [bind_outsU].
  induction evs as [|ev evs IH]; [reflexivity|].
  destruct ev as [s e|k0]; rewrite IH, ?H; reflexivity.
Qed.

(* feeding a concatenation = feeding the parts *)
Lemma bindU_app ex ey aby k :
  bind_outsU (DOk (ex ++ ey) aby) k = seqU (bind_outsU (DOk ex false) k) (bind_outsU (DOk ey aby) k).
Proof.
  cbn [bind_outsU]. induction ex as [|ev ex IH]; cbn [app].
  - rewrite seqU_nil_l. reflexivity.
  - destruct ev as [s e|k0]; rewrite IH, seqU_assoc; reflexivity.
Qed.

Lemma bindU_seqU x y k : dle (bind_outsU (seqU x y) k) (seqU (bind_outsU x k) (bind_outsU y k)).
Proof.
  destruct x as [| |ex [|]]; try (intros ? ? H; discriminate H).
  - (* x aborted *) cbn [seqU]. rewrite seqU_unclean by apply bindU_aborted_unclean. apply dle_refl.
  - destruct y as [| |ey aby]; try (intros ? ? H; discriminate H).
    cbn [seqU]. rewrite bindU_app. apply dle_refl.
Qed.

Lemma bindU_assoc r k1 k2 :
  dle (bind_outsU (bind_outsU r k1) k2) (bind_outsU r (fun s e => bind_outsU (k1 s e) k2)).
Proof.
  destruct r as [| |evs ab]; try (intros ? ? H; discriminate H). cbn [bind_outsU].
  induction evs as [|ev evs IH]; [apply dle_refl|].
  destruct ev as [s e|k0].
  - eapply dle_trans; [apply bindU_seqU|]. apply seqU_dle; [apply dle_refl|exact IH].
  - eapply dle_trans; [apply bindU_seqU|]. apply seqU_dle; [|exact IH].
    cbn. apply dle_refl.
Qed.

(* ---- the rewrite steps of tree::simplify, for any program and fuel ---- *)
Section Steps.
  Variable P : params.
  Variable prog : tree.

  Lemma denU_mono_dle f g t env stk : f <= g -> dle (denU P prog f t env stk) (denU P prog g t env stk).
  Proof.
    intros L evs ab H. rewrite (denU_mono P prog f g t env stk L); [exact H|]. rewrite H. discriminate.
  Qed.

  Definition catU (g : nat) : list tree -> denv -> stack -> dres :=
    fix go (l : list tree) (env : denv) (stk : stack) : dres :=
      match l with
      | [] => ok [DOut stk env]
      | c :: r => bind_outsU (denU P prog g c env stk) (fun s e => go r e s)
      end.

  Definition altU (g : nat) (env : denv) (stk : stack) : list tree -> dres :=
    fix go (l : list tree) : dres :=
      match l with
      | [] => ok []
      | c :: r => seqU (scoped env (denU P prog g c env stk)) (go r)
      end.

  Lemma denU_cat g l env stk : denU P prog (S g) (TCat l) env stk = catU g l env stk.
  Proof. reflexivity. Qed.
  Lemma denU_alt g l env stk : denU P prog (S g) (TAlt l) env stk = altU g env stk l.
  Proof. reflexivity. Qed.

  Lemma catU_mono g g' l : g <= g' -> forall env stk, dle (catU g l env stk) (catU g' l env stk).
  Proof.
    intros L. induction l as [|c r IH]; intros env stk; [apply dle_refl|].
    cbn [catU]. apply bindU_dle; [apply denU_mono_dle; exact L|]. intros s e. apply IH.
  Qed.

  Lemma catU_cong g l1 l2 r :
    (forall env stk, dle (catU g l1 env stk) (catU g l2 env stk)) ->
    forall env stk, dle (catU g (r ++ l1) env stk) (catU g (r ++ l2) env stk).
  Proof.
    intros H. induction r as [|c r IH]; intros env stk; cbn [app]; [apply H|].
    cbn [catU]. apply bindU_dle; [apply dle_refl|]. intros s e. apply IH.
  Qed.

  (* running l1 and feeding every result to l2 is running l1 ++ l2 *)
  Lemma catU_app g l1 l2 : forall env stk,
    dle (bind_outsU (catU g l1 env stk) (fun s e => catU g l2 e s)) (catU g (l1 ++ l2) env stk).
  Proof.
    induction l1 as [|c l1 IH]; intros env stk; cbn [app catU].
    - cbn [bind_outsU ok]. rewrite seqU_nil_r. apply dle_refl.
    - eapply dle_trans; [apply bindU_assoc|]. apply bindU_dle; [apply dle_refl|]. intros s e. apply IH.
  Qed.

  (* "Promote CAT's in CAT nodes" *)
  Lemma flatten_cat_dle : forall d g l env stk, dle (catU g l env stk) (catU g (flatten_cat d l) env stk).
  Proof.
    induction d as [|d IHd]; intros g l; [intros; apply dle_refl|].
    cbn [flatten_cat]. induction l as [|c r IHl]; intros env stk; [apply dle_refl|].
    cbn [flat_map].
    assert (forall e s, dle (catU g r e s)
                            (catU g (flat_map (fun c0 => match c0 with TCat l' => flatten_cat d l' | _ => [c0] end) r) e s)) as HR
      by (intros e s; apply IHl).
    assert (dle (catU g (c :: r) env stk)
                (catU g ([c] ++ flat_map (fun c0 => match c0 with TCat l' => flatten_cat d l' | _ => [c0] end) r) env stk)) as Hplain.
    { cbn [app catU]. apply bindU_dle; [apply dle_refl|]. intros s e. apply HR. }
    destruct c; try exact Hplain.
    (* c = TCat l0 *)
    cbn [catU]. destruct g as [|g1]; [intros ? ? H; discriminate H|].
    rewrite denU_cat.
    eapply dle_trans; [|apply catU_app].
    apply bindU_dle; [|intros s e; apply HR].
    eapply dle_trans; [apply (catU_mono g1 (S g1)); lia|]. apply IHd.
  Qed.

  Lemma scoped_seqU env a b : scoped env (seqU a b) = seqU (scoped env a) (scoped env b).
  Proof.
    destruct a as [| |ea [|]]; try reflexivity. destruct b as [| |eb abb]; try reflexivity.
    cbn. rewrite map_app. reflexivity.
  Qed.

  Lemma scoped_idem env r : scoped env (scoped env r) = scoped env r.
  Proof.
    destruct r as [| |evs ab]; try reflexivity. cbn. f_equal. rewrite map_map.
    apply map_ext. intros [s e|k]; reflexivity.
  Qed.

  Lemma scoped_altU g env stk l : scoped env (altU g env stk l) = altU g env stk l.
  Proof.
    induction l as [|c r IH]; [reflexivity|]. cbn [altU]. rewrite scoped_seqU, scoped_idem, IH. reflexivity.
  Qed.

  Lemma altU_app g env stk l1 l2 : altU g env stk (l1 ++ l2) = seqU (altU g env stk l1) (altU g env stk l2).
  Proof.
    induction l1 as [|c l1 IH]; cbn [app altU].
    - unfold ok. rewrite seqU_nil_l. reflexivity.
    - rewrite IH, seqU_assoc. reflexivity.
  Qed.

  Lemma altU_mono g g' env stk l : g <= g' -> dle (altU g env stk l) (altU g' env stk l).
  Proof.
    intros L. induction l as [|c r IH]; [apply dle_refl|]. cbn [altU].
    apply seqU_dle; [apply scoped_dle; apply denU_mono_dle; exact L|exact IH].
  Qed.

  (* "... and ALT's in ALT nodes" *)
  Lemma flatten_alt_dle : forall d g env stk l, dle (altU g env stk l) (altU g env stk (flatten_alt d l)).
  Proof.
    induction d as [|d IHd]; intros g env stk l; [apply dle_refl|].
    cbn [flatten_alt]. induction l as [|c r IHl]; [apply dle_refl|].
    cbn [flat_map].
    assert (dle (altU g env stk (c :: r))
                (altU g env stk ([c] ++ flat_map (fun c0 => match c0 with TAlt l' => flatten_alt d l' | _ => [c0] end) r))) as Hplain.
    { cbn [app altU]. apply seqU_dle; [apply dle_refl|exact IHl]. }
    destruct c; try exact Hplain.
    (* c = TAlt l0 *)
    cbn [altU]. destruct g as [|g1]; [intros ? ? H; discriminate H|].
    rewrite denU_alt, scoped_altU, altU_app.
    apply seqU_dle; [|exact IHl].
    eapply dle_trans; [apply (altU_mono g1 (S g1)); lia|]. apply IHd.
  Qed.
  (* "Promote CAT's only child" *)
  Lemma cat_single_dle g c env stk : dle (denU P prog g (TCat [c]) env stk) (denU P prog g c env stk).
  Proof.
    destruct g as [|g1]; [intros ? ? H; discriminate H|].
    rewrite denU_cat.
    change (catU g1 [c] env stk) with (bind_outsU (denU P prog g1 c env stk) (fun s e => ok [DOut s e])).
    rewrite bindU_ret. apply denU_mono_dle. lia.
  Qed.

  (* "(FORMAT (STR)) -> (STR)" *)
  Lemma format_single_str_dle g s env stk : dle (denU P prog g (TFormat [TStr s]) env stk) (denU P prog g (TStr s) env stk).
  Proof.
    destruct g as [|g1]; [intros ? ? H; discriminate H|].
    apply dle_of_eq. cbn. rewrite app_nil_r. reflexivity.
  Qed.

  (* "Drop NOP's in CAT nodes" *)
  Lemma drop_nops_dle g l : forall env stk,
    dle (catU g l env stk) (catU g (filter (fun c => negb (is_nop c)) l) env stk).
  Proof.
    induction l as [|c r IH]; intros env stk; [apply dle_refl|].
    cbn [filter].
    destruct (is_nop c) eqn:N; cbn [negb].
    - destruct c; try discriminate N. cbn [catU].
      destruct g as [|g1]; [intros ? ? H; discriminate H|].
      change (denU P prog (S g1) TNop env stk) with (ok [DOut stk env]).
      cbn [bind_outsU ok]. rewrite seqU_nil_r. apply IH.
    - cbn [catU]. apply bindU_dle; [apply dle_refl|]. intros s e. apply IH.
  Qed.

  Theorem node_fix_dle : forall n g t env stk, dle (denU P prog g t env stk) (denU P prog g (node_fix n t) env stk).
  Proof.
    induction n as [|n IH]; intros g t env stk; [apply dle_refl|].
    cbn [node_fix].
    set (t1 := match t with
               | TCat l => TCat (flatten_cat (depth t) l)
               | TAlt l => TAlt (flatten_alt (depth t) l)
               | o => o
               end).
    assert (dle (denU P prog g t env stk) (denU P prog g t1 env stk)) as H1.
    { subst t1. destruct t; try apply dle_refl.
      - destruct g as [|g1]; [intros ? ? H; discriminate H|]. rewrite !denU_cat. apply flatten_cat_dle.
      - destruct g as [|g1]; [intros ? ? H; discriminate H|]. rewrite !denU_alt. apply flatten_alt_dle. }
    eapply dle_trans; [exact H1|]. clearbody t1. clear H1.
    destruct t1; try apply dle_refl.
    - (* TCat *)
      destruct l as [|c [|c2 l2]].
      + cbn [existsb]. apply dle_refl.
      + eapply dle_trans; [apply cat_single_dle|]. apply IH.
      + destruct (existsb is_nop (c :: c2 :: l2)); [|apply dle_refl].
        eapply dle_trans; [|apply IH].
        destruct g as [|g1]; [intros ? ? H; discriminate H|]. rewrite !denU_cat. apply drop_nops_dle.
    - (* TFormat *)
      destruct l as [|p0 [|p1 l1]]; try apply dle_refl.
      + destruct p0; try apply dle_refl. apply format_single_str_dle.
      + destruct p0; apply dle_refl.
  Qed.
End Steps.

(* ---- the simplifier keeps the blocks, in order: looking one up in the simplified
   program gives the simplified body ---- *)
Definition firstb (id : N) : list tree -> option tree :=
  fix first (l : list tree) : option tree :=
    match l with
    | [] => None
    | x :: r => match find_block x id with Some b => Some b | None => first r end
    end.

Lemma find_block_cat l id : find_block (TCat l) id = firstb id l.
Proof. reflexivity. Qed.
Lemma find_block_alt l id : find_block (TAlt l) id = firstb id l.
Proof. reflexivity. Qed.
Lemma find_block_or l id : find_block (TOr l) id = firstb id l.
Proof. reflexivity. Qed.
Lemma find_block_format l id : find_block (TFormat l) id = firstb id l.
Proof. reflexivity. Qed.

Lemma firstb_app id l1 l2 :
  firstb id (l1 ++ l2) = match firstb id l1 with Some b => Some b | None => firstb id l2 end.
Proof.
  induction l1 as [|x l1 IH]; [reflexivity|]. cbn [app firstb]. destruct (find_block x id); [reflexivity|exact IH].
Qed.

Lemma firstb_flat_map id (F : tree -> list tree) l :
  (forall c, In c l -> firstb id (F c) = find_block c id) -> firstb id (flat_map F l) = firstb id l.
Proof.
  induction l as [|c r IH]; intros H; [reflexivity|].
  cbn [flat_map firstb]. rewrite firstb_app, (H c (or_introl eq_refl)).
  destruct (find_block c id); [reflexivity|]. apply IH. intros c' Hc'. apply H. right. exact Hc'.
Qed.

Lemma firstb_single id c : firstb id [c] = find_block c id.
Proof. cbn [firstb]. destruct (find_block c id); reflexivity. Qed.

Lemma firstb_flatten_cat id : forall d l, firstb id (flatten_cat d l) = firstb id l.
Proof.
  induction d as [|d IH]; intros l; [reflexivity|]. cbn [flatten_cat].
  apply firstb_flat_map. intros c _. destruct c; try apply firstb_single.
  rewrite IH. reflexivity.
Qed.

Lemma firstb_flatten_alt id : forall d l, firstb id (flatten_alt d l) = firstb id l.
Proof.
  induction d as [|d IH]; intros l; [reflexivity|]. cbn [flatten_alt].
  apply firstb_flat_map. intros c _. destruct c; try apply firstb_single.
  rewrite IH. reflexivity.
Qed.

Lemma firstb_drop_nops id l : firstb id (filter (fun c => negb (is_nop c)) l) = firstb id l.
Proof.
  induction l as [|c r IH]; [reflexivity|]. cbn [filter].
  destruct (is_nop c) eqn:N; cbn [negb].
  - destruct c; try discriminate N. cbn [firstb find_block]. exact IH.
  - cbn [firstb]. rewrite IH. reflexivity.
Qed.

Lemma find_block_node_fix id : forall n t, find_block (node_fix n t) id = find_block t id.
Proof.
  induction n as [|n IH]; intros t; [reflexivity|]. cbn [node_fix].
  set (t1 := match t with
             | TCat l => TCat (flatten_cat (depth t) l)
             | TAlt l => TAlt (flatten_alt (depth t) l)
             | o => o
             end).
  assert (find_block t1 id = find_block t id) as H1.
  { subst t1. destruct t; try reflexivity.
    - rewrite !find_block_cat. apply firstb_flatten_cat.
    - rewrite !find_block_alt. apply firstb_flatten_alt. }
  rewrite <- H1. clearbody t1. clear H1.
  destruct t1; try reflexivity.
  - destruct l as [|c [|c2 l2]]; [reflexivity| |].
    + rewrite IH, find_block_cat, firstb_single. reflexivity.
    + destruct (existsb is_nop (c :: c2 :: l2)); [|reflexivity].
      rewrite IH, !find_block_cat. apply firstb_drop_nops.
  - destruct l as [|p0 [|p1 l1]]; try reflexivity.
    + destruct p0; reflexivity.
    + destruct p0; reflexivity.
Qed.

Definition maxd : list tree -> nat :=
  fix dl (l : list tree) : nat := match l with [] => O | x :: r => Nat.max (depth x) (dl r) end.

Lemma depth_cat l : depth (TCat l) = S (maxd l). Proof. reflexivity. Qed.
Lemma depth_alt l : depth (TAlt l) = S (maxd l). Proof. reflexivity. Qed.
Lemma depth_or l : depth (TOr l) = S (maxd l). Proof. reflexivity. Qed.
Lemma depth_format l : depth (TFormat l) = S (maxd l). Proof. reflexivity. Qed.

Lemma maxd_in c l : In c l -> depth c <= maxd l.
Proof.
  induction l as [|x r IH]; intros H; [contradiction|]. cbn [maxd].
  destruct H as [<-|H]; [lia|]. specialize (IH H). lia.
Qed.

Lemma simplify_cat l : simplify (TCat l) = node_fix (S (S (S (depth (TCat (map simplify l)))))) (TCat (map simplify l)).
Proof. reflexivity. Qed.
Lemma simplify_alt l : simplify (TAlt l) = node_fix (S (S (S (depth (TAlt (map simplify l)))))) (TAlt (map simplify l)).
Proof. reflexivity. Qed.
Lemma simplify_or l : simplify (TOr l) = node_fix (S (S (S (depth (TOr (map simplify l)))))) (TOr (map simplify l)).
Proof. reflexivity. Qed.
Lemma simplify_format l : simplify (TFormat l) = node_fix (S (S (S (depth (TFormat (map simplify l)))))) (TFormat (map simplify l)).
Proof. reflexivity. Qed.

Lemma firstb_map_simplify id l :
  (forall c, In c l -> find_block (simplify c) id = option_map simplify (find_block c id)) ->
  firstb id (map simplify l) = option_map simplify (firstb id l).
Proof.
  induction l as [|c r IH]; intros H; [reflexivity|]. cbn [map firstb].
  rewrite (H c (or_introl eq_refl)). destruct (find_block c id); [reflexivity|].
  apply IH. intros c' Hc'. apply H. right. exact Hc'.
Qed.

Lemma find_block_simplify_n id : forall d t, depth t <= d -> find_block (simplify t) id = option_map simplify (find_block t id).
Proof.
  induction d as [|d IH]; intros t Hd; [destruct t; cbn in Hd; lia|].
  assert (forall l, maxd l <= d -> firstb id (map simplify l) = option_map simplify (firstb id l)) as HL.
  { intros l Hl. apply firstb_map_simplify. intros c Hc. apply IH. pose proof (maxd_in c l Hc). lia. }
  destruct t; try reflexivity.
  - rewrite simplify_cat, find_block_node_fix, !find_block_cat. apply HL. rewrite depth_cat in Hd. lia.
  - rewrite simplify_alt, find_block_node_fix, !find_block_alt. apply HL. rewrite depth_alt in Hd. lia.
  - rewrite simplify_or, find_block_node_fix, !find_block_or. apply HL. rewrite depth_or in Hd. lia.
  - (* TCapture *) cbn [depth] in Hd. change (simplify (TCapture t)) with (node_fix (S (S (S (depth (TCapture (simplify t)))))) (TCapture (simplify t))).
    rewrite find_block_node_fix. cbn [find_block]. apply IH. lia.
  - (* TSubx *) cbn [depth] in Hd. change (simplify (TSubx keep t)) with (node_fix (S (S (S (depth (TSubx keep (simplify t)))))) (TSubx keep (simplify t))).
    rewrite find_block_node_fix. cbn [find_block]. apply IH. lia.
  - (* TIfElse *) cbn [depth] in Hd.
    change (simplify (TIfElse t1 t2 t3)) with (node_fix (S (S (S (depth (TIfElse (simplify t1) (simplify t2) (simplify t3)))))) (TIfElse (simplify t1) (simplify t2) (simplify t3))).
    rewrite find_block_node_fix. cbn [find_block].
    rewrite (IH t1) by lia. destruct (find_block t1 id); [reflexivity|].
    rewrite (IH t2) by lia. destruct (find_block t2 id); [reflexivity|].
    rewrite (IH t3) by lia. destruct (find_block t3 id); reflexivity.
  - (* TScope *) cbn [depth] in Hd. change (simplify (TScope t)) with (node_fix (S (S (S (depth (TScope (simplify t)))))) (TScope (simplify t))).
    rewrite find_block_node_fix. cbn [find_block]. apply IH. lia.
  - (* TBlock *) cbn [depth] in Hd. change (simplify (TBlock id0 t)) with (node_fix (S (S (S (depth (TBlock id0 (simplify t)))))) (TBlock id0 (simplify t))).
    rewrite find_block_node_fix. cbn [find_block]. destruct (N.eqb id0 id); [reflexivity|]. apply IH. lia.
  - (* TStar *) cbn [depth] in Hd. change (simplify (TStar t)) with (node_fix (S (S (S (depth (TStar (simplify t)))))) (TStar (simplify t))).
    rewrite find_block_node_fix. cbn [find_block]. apply IH. lia.
  - (* TPlus *) cbn [depth] in Hd. change (simplify (TPlus t)) with (node_fix (S (S (S (depth (TPlus (simplify t)))))) (TPlus (simplify t))).
    rewrite find_block_node_fix. cbn [find_block]. apply IH. lia.
  - (* TAssert *) cbn [depth] in Hd. change (simplify (TAssert t)) with (node_fix (S (S (S (depth (TAssert (simplify t)))))) (TAssert (simplify t))).
    rewrite find_block_node_fix. cbn [find_block]. apply IH. lia.
  - (* TPredAnd *) cbn [depth] in Hd.
    change (simplify (TPredAnd t1 t2)) with (node_fix (S (S (S (depth (TPredAnd (simplify t1) (simplify t2)))))) (TPredAnd (simplify t1) (simplify t2))).
    rewrite find_block_node_fix. cbn [find_block].
    rewrite (IH t1) by lia. destruct (find_block t1 id); [reflexivity|].
    rewrite (IH t2) by lia. destruct (find_block t2 id); reflexivity.
  - (* TPredOr *) cbn [depth] in Hd.
    change (simplify (TPredOr t1 t2)) with (node_fix (S (S (S (depth (TPredOr (simplify t1) (simplify t2)))))) (TPredOr (simplify t1) (simplify t2))).
    rewrite find_block_node_fix. cbn [find_block].
    rewrite (IH t1) by lia. destruct (find_block t1 id); [reflexivity|].
    rewrite (IH t2) by lia. destruct (find_block t2 id); reflexivity.
  - (* TPredNot *) cbn [depth] in Hd. change (simplify (TPredNot t)) with (node_fix (S (S (S (depth (TPredNot (simplify t)))))) (TPredNot (simplify t))).
    rewrite find_block_node_fix. cbn [find_block]. apply IH. lia.
  - (* TPredSubx *) cbn [depth] in Hd. change (simplify (TPredSubx t)) with (node_fix (S (S (S (depth (TPredSubx (simplify t)))))) (TPredSubx (simplify t))).
    rewrite find_block_node_fix. cbn [find_block]. apply IH. lia.
  - (* TFormat *) rewrite simplify_format, find_block_node_fix, !find_block_format. apply HL. rewrite depth_format in Hd. lia.
Qed.

Lemma find_block_simplify t id : find_block (simplify t) id = option_map simplify (find_block t id).
Proof. apply (find_block_simplify_n id (depth t)). lia. Qed.

(* ---- the whole simplifier ---- *)
Definition shallow (t : tree) : tree :=
  match t with
  | TCat l => TCat (map simplify l)
  | TAlt l => TAlt (map simplify l)
  | TOr l => TOr (map simplify l)
  | TFormat l => TFormat (map simplify l)
  | TCapture c => TCapture (simplify c)
  | TSubx k c => TSubx k (simplify c)
  | TScope c => TScope (simplify c)
  | TBlock i c => TBlock i (simplify c)
  | TStar c => TStar (simplify c)
  | TPlus c => TPlus (simplify c)
  | TAssert c => TAssert (simplify c)
  | TPredNot c => TPredNot (simplify c)
  | TPredSubx c => TPredSubx (simplify c)
  | TIfElse c a b => TIfElse (simplify c) (simplify a) (simplify b)
  | TPredAnd a b => TPredAnd (simplify a) (simplify b)
  | TPredOr a b => TPredOr (simplify a) (simplify b)
  | o => o
  end.

Lemma simplify_eq t : simplify t = node_fix (S (S (S (depth (shallow t))))) (shallow t).
Proof. destruct t; reflexivity. Qed.

Lemma node_fix_other n t :
  match t with TCat _ | TAlt _ | TFormat _ => False | _ => True end -> node_fix n t = t.
Proof. destruct n; [reflexivity|]. destruct t; intros H; try reflexivity; contradiction. Qed.

Definition pdle (x y : (pres * list soft) + dres) : Prop :=
  (forall v, x = inl v -> y = inl v) /\ (forall evs ab, x = inr (DOk evs ab) -> y = inr (DOk evs ab)).

Lemma pdle_refl x : pdle x x.
Proof. split; intros; assumption. Qed.

Lemma bindU_DOk_inv r k evs ab : bind_outsU r k = DOk evs ab -> exists evs' ab', r = DOk evs' ab'.
Proof. destruct r as [| |e a]; cbn [bind_outsU]; intros H; try discriminate. eauto. Qed.

Section Main.
  Variable P : params.
  Variable prog : tree.
  Let progS := simplify prog.

  Definition SimpLe (f : nat) : Prop :=
    (forall t env stk, dle (denU P prog f t env stk) (denU P progS f (simplify t) env stk)) /\
    (forall p env stk, pdle (pevalU P prog f p env stk) (pevalU P progS f (simplify p) env stk)).

  Lemma closure_body f blk env (rest : stack) cenv : SimpLe f ->
    dle (match find_block prog blk with
         | Some body => scoped env (denU P prog f body (decode_env cenv) rest)
         | None => DStuck
         end)
        (match find_block progS blk with
         | Some body => scoped env (denU P progS f body (decode_env cenv) rest)
         | None => DStuck
         end).
  Proof.
    intros [IHd _]. unfold progS. rewrite find_block_simplify.
    destruct (find_block prog blk) as [body|]; cbn [option_map]; [|apply dle_refl].
    apply scoped_dle. apply IHd.
  Qed.

  (* one splice of a format string: a literal is appended, a sub-program is run and shown *)
  Definition fpart (pr : tree) (g : nat) (env : denv) (part : tree) (suffix : bytes) (s1' : stack) : dres :=
    match part with
    | TStr lit => ok [DOut (VStr (lit ++ suffix) 0 :: s1') env]
    | _ =>
      bind_outsU (denU P pr g part env s1')
                 (fun s2 e2 =>
                    match s2 with
                    | v :: s2' => ok [DOut (VStr (show (p_tc P) v ++ suffix) 0 :: s2') e2]
                    | [] => abort
                    end)
    end.

  Lemma fpart_dle f env part suffix s1' : SimpLe f ->
    dle (fpart prog f env part suffix s1') (fpart progS f env (simplify part) suffix s1').
  Proof.
    intros [IHd _].
    assert (forall (t : tree),
      dle (bind_outsU (denU P prog f part env s1')
             (fun s2 e2 => match s2 with
                          | v :: s2' => ok [DOut (VStr (show (p_tc P) v ++ suffix) 0 :: s2') e2]
                          | [] => abort
                          end))
          (bind_outsU (denU P progS f (simplify part) env s1')
             (fun s2 e2 => match s2 with
                          | v :: s2' => ok [DOut (VStr (show (p_tc P) v ++ suffix) 0 :: s2') e2]
                          | [] => abort
                          end))) as Hb.
    { intros _. apply bindU_dle; [apply IHd|]. intros; apply dle_refl. }
    specialize (Hb TNop).
    destruct (match part with TStr _ => true | _ => false end) eqn:IsStr.
    - destruct part; try discriminate IsStr. apply dle_refl.
    - assert (fpart prog f env part suffix s1' =
              bind_outsU (denU P prog f part env s1')
                (fun s2 e2 => match s2 with
                             | v :: s2' => ok [DOut (VStr (show (p_tc P) v ++ suffix) 0 :: s2') e2]
                             | [] => abort
                             end)) as EL by (destruct part; try reflexivity; discriminate IsStr).
      rewrite EL. clear EL.
      destruct (simplify part) eqn:ES; try exact Hb.
      (* the simplified part is a literal: running it pushes that literal *)
      eapply dle_trans; [exact Hb|].
      destruct f as [|f1]; [intros ? ? H; discriminate H|].
      apply dle_of_eq. cbn. rewrite ?app_nil_r. reflexivity.
  Qed.
  Ltac vac := let H := fresh in intros ? ? H; discriminate H.

  Lemma simp_shallow_step f : SimpLe f ->
    (forall t env stk, dle (denU P prog (S f) t env stk) (denU P progS (S f) (shallow t) env stk)) /\
    (forall p env stk, pdle (pevalU P prog (S f) p env stk) (pevalU P progS (S f) (shallow p) env stk)).
  Proof.
    intros IHf. pose proof IHf as [IHd IHp]. split.
    - intros t env stk. destruct t; cbn [shallow denU]; try apply dle_refl.
      + (* TCat *)
        revert env stk. induction l as [|c r IHl]; intros env stk; [apply dle_refl|].
        cbn [map]. apply bindU_dle; [apply IHd|]. intros s e. apply IHl.
      + (* TAlt *)
        induction l as [|c r IHl]; [apply dle_refl|].
        cbn [map]. apply seqU_dle; [apply scoped_dle; apply IHd|apply IHl].
      + (* TOr *)
        induction l as [|c r IHl]; [apply dle_refl|]. cbn [map].
        destruct (scoped env (denU P prog f c env stk)) as [| |evs ab] eqn:E; try vac.
        rewrite (scoped_dle env _ _ (IHd c env stk) evs ab E).
        destruct (outs_of evs); [|apply dle_refl]. apply seqU_dle; [apply dle_refl|apply IHl].
      + (* TCapture *)
        destruct (denU P prog f t env stk) as [| |evs ab] eqn:E; try vac.
        rewrite (IHd t env stk evs ab E). apply dle_refl.
      + (* TSubx *)
        apply bindU_dle; [apply IHd|]. intros s e. apply dle_refl.
      + (* TIfElse *)
        destruct (denU P prog f t1 env stk) as [| |evs ab] eqn:E; try vac.
        rewrite (IHd t1 env stk evs ab E).
        destruct (upto_first evs) as [pre [o|]].
        * apply seqU_dle; [apply dle_refl|apply scoped_dle; apply IHd].
        * destruct ab; [apply dle_refl|]. apply seqU_dle; [apply dle_refl|apply scoped_dle; apply IHd].
      + (* TScope *) apply scoped_dle. apply IHd.
      + (* TRead *)
        destruct (dlookup env n) as [[z d p0|s p0|l p0|blk cenv p0]|]; try apply dle_refl.
        * apply closure_body. exact IHf.
        * destruct (assoc (voc_table (p_tc P)) n) as [[w|pos w]|]; try apply dle_refl.
          destruct w; try apply dle_refl.
          destruct stk as [|[z d p0|s p0|l p0|blk cenv p0] rest]; try apply dle_refl.
          apply closure_body. exact IHf.
      + (* TStar *)
        apply seqU_dle; [apply dle_refl|]. apply closure_loopU_dle. intros s. apply IHd.
      + (* TPlus *)
        apply closure_loopU_dle. intros s. apply IHd.
      + (* TAssert *)
        fold (pevalU P prog). fold (pevalU P progS).
        destruct (IHp t env stk) as [Hl Hr].
        destruct (pevalU P prog f t env stk) as [[r errs]|o] eqn:E.
        * rewrite (Hl _ eq_refl). apply dle_refl.
        * destruct o as [| |evs ab]; try vac. rewrite (Hr _ _ eq_refl). apply dle_refl.
      + (* TFormat *)
        match goal with
        | |- dle (match ?A with _ => _ end) (match ?B with _ => _ end) => assert (dle A B) as HF
        end.
        { induction l as [|part rest IHl]; [apply dle_refl|]. cbn [map].
          apply bindU_dle; [apply IHl|]. intros s1 e1.
          destruct s1 as [|[z d p0|suffix p0|l0 p0|blk cenv p0] s1']; try apply dle_refl.
          apply (fpart_dle f e1 part suffix s1' IHf). }
        match goal with
        | |- dle (match ?A with _ => _ end) _ => destruct A as [| |evs ab] eqn:E; try vac
        end.
        rewrite (HF evs ab eq_refl). apply dle_refl.
    - intros p env stk. destruct p; cbn [shallow pevalU]; try apply pdle_refl.
      + (* TPredAnd *)
        destruct (IHp p1 env stk) as [Hl1 Hr1]. destruct (IHp p2 env stk) as [Hl2 Hr2].
        destruct (pevalU P prog f p1 env stk) as [[ra ea]|o] eqn:E1.
        * rewrite (Hl1 _ eq_refl).
          destruct (pevalU P prog f p2 env stk) as [[rb eb]|o] eqn:E2.
          -- rewrite (Hl2 _ eq_refl). apply pdle_refl.
          -- split; [intros v H; discriminate H|]. intros evs ab H. inversion H; subst. rewrite (Hr2 _ _ eq_refl). reflexivity.
        * split; [intros v H; discriminate H|]. intros evs ab H. inversion H; subst. rewrite (Hr1 _ _ eq_refl). reflexivity.
      + (* TPredOr *)
        destruct (IHp p1 env stk) as [Hl1 Hr1]. destruct (IHp p2 env stk) as [Hl2 Hr2].
        destruct (pevalU P prog f p1 env stk) as [[ra ea]|o] eqn:E1.
        * rewrite (Hl1 _ eq_refl).
          destruct (pevalU P prog f p2 env stk) as [[rb eb]|o] eqn:E2.
          -- rewrite (Hl2 _ eq_refl). apply pdle_refl.
          -- split; [intros v H; discriminate H|]. intros evs ab H. inversion H; subst. rewrite (Hr2 _ _ eq_refl). reflexivity.
        * split; [intros v H; discriminate H|]. intros evs ab H. inversion H; subst. rewrite (Hr1 _ _ eq_refl). reflexivity.
      + (* TPredNot *)
        destruct (IHp p env stk) as [Hl1 Hr1].
        destruct (pevalU P prog f p env stk) as [[ra ea]|o] eqn:E1.
        * rewrite (Hl1 _ eq_refl). apply pdle_refl.
        * split; [intros v H; discriminate H|]. intros evs ab H. inversion H; subst. rewrite (Hr1 _ _ eq_refl). reflexivity.
      + (* TPredSubx *)
        fold (denU P prog). fold (denU P progS).
        destruct (denU P prog f p env stk) as [| |evs ab] eqn:E;
          try (split; [intros v H; discriminate H|intros ? ? H; discriminate H]).
        rewrite (IHd p env stk evs ab E). apply pdle_refl.
  Qed.
  Lemma simp_step f : SimpLe f -> SimpLe (S f).
  Proof.
    intros IHf. destruct (simp_shallow_step f IHf) as [Sd Sp]. split.
    - intros t env stk. rewrite simplify_eq.
      eapply dle_trans; [apply Sd|]. apply node_fix_dle.
    - intros p env stk. rewrite simplify_eq.
      destruct p; try (rewrite node_fix_other by exact I; apply Sp);
        (split; [intros v H; discriminate H|intros ? ? H; discriminate H]).
  Qed.

  Theorem simp_all : forall f, SimpLe f.
  Proof.
    induction f as [|f IH]; [|apply simp_step; exact IH].
    split; [intros t env stk ? ? H; discriminate H|].
    intros p env stk. split; [intros v H; discriminate H|intros ? ? H; discriminate H].
  Qed.

  (* on the twin: whatever the program as written evaluates to, the simplified
     program (with the simplified blocks) evaluates to, with the same fuel *)
  Theorem simplify_preserves_U f t env stk evs ab :
    denU P prog f t env stk = DOk evs ab -> denU P progS f (simplify t) env stk = DOk evs ab.
  Proof. intros H. exact (proj1 (simp_all f) t env stk evs ab H). Qed.

  (* and for the specification evaluator itself: if the program as written
     evaluates to a result list (complete or ended by an exception), then
     whenever the evaluation of the simplified program finishes - with any
     amount of fuel - it finishes with that same list *)
  Theorem simplify_preserves f1 f2 t env stk evs ab :
    den P prog f1 t env stk = DOk evs ab ->
    den P progS f2 (simplify t) env stk <> DFuel ->
    den P progS f2 (simplify t) env stk = DOk evs ab.
  Proof.
    intros H1 H2.
    assert (denU P prog f1 t env stk = DOk evs ab) as U1.
    { destruct (den_le_denU P prog f1 t env stk) as [E|E]; [rewrite E in H1; discriminate|]. rewrite <- E. exact H1. }
    pose proof (simplify_preserves_U f1 t env stk evs ab U1) as U2.
    assert (denU P progS f2 (simplify t) env stk = den P progS f2 (simplify t) env stk) as U3.
    { destruct (den_le_denU P progS f2 (simplify t) env stk) as [E|E]; [contradiction|]. symmetry. exact E. }
    assert (denU P progS (Nat.max f1 f2) (simplify t) env stk = DOk evs ab) as M1.
    { rewrite (denU_mono P progS f1 (Nat.max f1 f2)); [exact U2|lia|rewrite U2; discriminate]. }
    assert (denU P progS (Nat.max f1 f2) (simplify t) env stk = den P progS f2 (simplify t) env stk) as M2.
    { rewrite (denU_mono P progS f2 (Nat.max f1 f2)); [exact U3|lia|rewrite U3; exact H2]. }
    rewrite <- M2. exact M1.
  Qed.
End Main.
