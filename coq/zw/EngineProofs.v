(* The engine model forgets: once an op chain has reported that it is exhausted,
   every op of it is back in the state it was constructed in -- so the next
   input stack is processed exactly like the first one.  This is the engine
   half of C01 ("no construct remembers, drops or re-orders work because of
   stacks it saw earlier"); proved for the ops of concatenation, `,`, `||`,
   `[ ]`, let/infix (subx), if-then-else, assertions, words, bindings. *)
From Coq Require Import ZArith NArith List Bool Arith Lia.
From Dwgrep Require Import Radix Value Words Engine Quiet.
Import ListNotations.

Section Proofs.
Variable P : params.
Variable blks : list mach.
Notation next := (next P blks).
Notation snext := (snext P blks).

(* ---- the constructed (pristine) state of a chain ---- *)
Fixpoint quiet (m : mach) : Prop :=
  match m with
  | MLeaf => True
  | MNop up | MDebug up | MConst up _ | MBind up _ | MRead up _ | MUpread up _ | MLexClosure up _ _ => quiet up
  | MAssert up p => quiet up
  | MMerge up brs file idx done =>
    quiet up /\ (fix all (l : list mach) : Prop := match l with [] => True | x :: t => quiet x /\ all t end) brs
    /\ all_none file = true /\ idx = O /\ done = false /\ length file = length brs /\ brs <> []
  | MOr up brs cur =>
    quiet up /\ (fix all (l : list (mach * option stack)) : Prop :=
                   match l with [] => True | (x, sl) :: t => quiet x /\ sl = None /\ all t end) brs /\ cur = None
  | MCapture up inner => quiet up /\ quiet inner
  | MSubx up inner keep saved slot => quiet up /\ quiet inner /\ saved = None /\ slot = None
  | MIfElse up cnd thn els active => quiet up /\ quiet cnd /\ quiet thn /\ quiet els /\ active = None
  | MWord up w pending => quiet up /\ pending = []
  | MClosure up inner plus slot seen stks drained =>
    quiet up /\ quiet inner /\ slot = None /\ seen = [] /\ stks = [] /\ drained = true
  | MApply up skip sub => quiet up /\ sub = None
  | MFormat up parts oslot pos =>
    (* the position counter is reset when the next stack arrives, not at exhaustion: any value *)
    quiet up /\ (fix all (l : list part) : Prop :=
                   match l with
                   | [] => True
                   | PLit _ :: t => all t
                   | POp inner slot cur :: t => quiet inner /\ slot = None /\ cur = None /\ all t
                   end) parts /\ oslot = None
  end.

Definition pquiet (p : part) : Prop :=
  match p with PLit _ => True | POp inner slot cur => quiet inner /\ slot = None /\ cur = None end.

Lemma quiet_format up parts oslot pos :
  quiet (MFormat up parts oslot pos) <-> quiet up /\ Forall pquiet parts /\ oslot = None.
Proof.
  cbn [quiet].
  assert (forall l, (fix all (l : list part) : Prop :=
                       match l with
                       | [] => True
                       | PLit _ :: t => all t
                       | POp inner slot cur :: t => quiet inner /\ slot = None /\ cur = None /\ all t
                       end) l <-> Forall pquiet l) as A.
  { induction l as [|[str|inner slot cur] l IH]; [split; [constructor|auto]| |].
    - split; [intros H; constructor; [exact I|apply IH; exact H]|intros H; inversion H; subst; apply IH; assumption].
    - split.
      + intros [H1 [H2 [H3 H4]]]. constructor; [cbn; auto|apply IH; exact H4].
      + intros H. inversion H as [|? ? Q Q4]; subst. cbn in Q. destruct Q as [Q1 [Q2 Q3]]. repeat split; auto. apply IH; assumption. }
  rewrite A. tauto.
Qed.

Definition all_quiet (l : list mach) : Prop := Forall quiet l.
Definition all_quiet_or (l : list (mach * option stack)) : Prop := Forall (fun b => quiet (fst b) /\ snd b = None) l.

Lemma quiet_merge up brs file idx done :
  quiet (MMerge up brs file idx done) <->
  quiet up /\ all_quiet brs /\ all_none file = true /\ idx = O /\ done = false /\ length file = length brs /\ brs <> [].
Proof.
  cbn [quiet]. assert (forall l, (fix all (l : list mach) : Prop := match l with [] => True | x :: t => quiet x /\ all t end) l <-> all_quiet l) as A.
  { induction l as [|x l IH]; [split; [constructor|auto]|]. split.
    - intros [H1 H2]. constructor; [exact H1|apply IH; exact H2].
    - intros H. inversion H; subst. split; [assumption|apply IH; assumption]. }
  rewrite A. tauto.
Qed.

Lemma quiet_or up brs cur : quiet (MOr up brs cur) <-> quiet up /\ all_quiet_or brs /\ cur = None.
Proof.
  cbn [quiet].
  assert (forall l, (fix all (l : list (mach * option stack)) : Prop :=
                       match l with [] => True | (x, sl) :: t => quiet x /\ sl = None /\ all t end) l <-> all_quiet_or l) as A.
  { induction l as [|[x sl] l IH]; [split; [constructor|auto]|]. split.
    - intros [H1 [H2 H3]]. constructor; [cbn; auto|apply IH; exact H3].
    - intros H. inversion H as [|? ? [Q1 Q2] Q3]; subst. cbn in *. split; [assumption|split; [assumption|apply IH; assumption]]. }
  rewrite A. tauto.
Qed.

(* ---- states an op chain can be in while it works ---- *)
Fixpoint inv (m : mach) : Prop :=
  match m with
  | MLeaf => True
  | MNop up | MDebug up | MConst up _ | MBind up _ | MRead up _ | MUpread up _ | MLexClosure up _ _ => inv up
  | MAssert up p => inv up
  | MMerge up brs file idx done =>
    inv up /\ done = false /\ idx < length brs /\ length file = length brs
    /\ (fix all (l : list mach) (j : nat) : Prop :=
          match l with [] => True | x :: t => (if Nat.eqb j idx then inv x else quiet x) /\ all t (S j) end) brs O
  | MOr up brs cur =>
    inv up /\
    match cur with
    | None => (fix all (l : list (mach * option stack)) : Prop :=
                 match l with [] => True | (x, sl) :: t => quiet x /\ sl = None /\ all t end) brs
    | Some i => i < length brs /\
                (fix all (l : list (mach * option stack)) (j : nat) : Prop :=
                   match l with [] => True | (x, sl) :: t => (if Nat.eqb j i then inv x else quiet x /\ sl = None) /\ all t (S j) end) brs O
    end
  | MCapture up inner => inv up /\ quiet inner
  | MSubx up inner keep saved slot => inv up /\ inv inner /\ (saved = None -> quiet inner /\ slot = None)
  | MIfElse up cnd thn els active =>
    inv up /\ quiet cnd /\ quiet thn /\ quiet els /\ match active with None => True | Some (am, _) => inv am end
  | MWord up w pending => inv up
  | MClosure up inner _ slot _ _ drained => inv up /\ inv inner /\ (drained = true -> quiet inner /\ slot = None)
  | MApply up _ sub => inv up /\ match sub with None => True | Some (bm, _, _, _) => inv bm end
  | MFormat up parts oslot pos =>
    inv up /\ (fix all (l : list part) : Prop :=
                 match l with
                 | [] => True
                 | PLit _ :: t => all t
                 | POp inner slot cur :: t => inv inner /\ (cur = None -> quiet inner /\ slot = None) /\ all t
                 end) parts
  end.

Definition pinv (p : part) : Prop :=
  match p with PLit _ => True | POp inner slot cur => inv inner /\ (cur = None -> quiet inner /\ slot = None) end.

Lemma inv_format up parts oslot pos : inv (MFormat up parts oslot pos) <-> inv up /\ Forall pinv parts.
Proof.
  cbn [inv].
  assert (forall l, (fix all (l : list part) : Prop :=
                       match l with
                       | [] => True
                       | PLit _ :: t => all t
                       | POp inner slot cur :: t => inv inner /\ (cur = None -> quiet inner /\ slot = None) /\ all t
                       end) l <-> Forall pinv l) as A.
  { induction l as [|[str|inner slot cur] l IH]; [split; [constructor|auto]| |].
    - split; [intros H; constructor; [exact I|apply IH; exact H]|intros H; inversion H; subst; apply IH; assumption].
    - split.
      + intros [H1 [H2 H3]]. constructor; [cbn; auto|apply IH; exact H3].
      + intros H. inversion H as [|? ? Q Q3]; subst. cbn in Q. destruct Q as [Q1 Q2]. repeat split; auto; try (apply Q2; assumption). apply IH; assumption. }
  rewrite A. tauto.
Qed.

(* list views of the nested fixpoints *)
Definition merge_brs_inv (idx : nat) (brs : list mach) : Prop :=
  forall j br, nth_error brs j = Some br -> if Nat.eqb j idx then inv br else quiet br.
Definition or_brs_inv (i : nat) (brs : list (mach * option stack)) : Prop :=
  forall j br sl, nth_error brs j = Some (br, sl) -> if Nat.eqb j i then inv br else quiet br /\ sl = None.

Lemma merge_fix_view idx : forall brs k,
  (fix all (l : list mach) (j : nat) : Prop :=
     match l with [] => True | x :: t => (if Nat.eqb j idx then inv x else quiet x) /\ all t (S j) end) brs k
  <-> (forall j br, nth_error brs j = Some br -> if Nat.eqb (k + j) idx then inv br else quiet br).
Proof.
  induction brs as [|x t IH]; intros k.
  - split; [intros _ j br H; destruct j; discriminate|auto].
  - split.
    + intros [H1 H2] j br Hj. destruct j as [|j]; cbn in Hj.
      * inversion Hj; subst. rewrite Nat.add_0_r. exact H1.
      * pose proof (proj1 (IH (S k)) H2) as H2'. clear H2. rename H2' into H2. specialize (H2 j br Hj). replace (k + S j) with (S k + j) by lia. exact H2.
    + intros H. split.
      * specialize (H O x eq_refl). rewrite Nat.add_0_r in H. exact H.
      * apply (proj2 (IH (S k))). intros j br Hj. specialize (H (S j) br Hj). replace (k + S j) with (S k + j) in H by lia. exact H.
Qed.

Lemma or_fix_view i : forall brs k,
  (fix all (l : list (mach * option stack)) (j : nat) : Prop :=
     match l with [] => True | (x, sl) :: t => (if Nat.eqb j i then inv x else quiet x /\ sl = None) /\ all t (S j) end) brs k
  <-> (forall j br sl, nth_error brs j = Some (br, sl) -> if Nat.eqb (k + j) i then inv br else quiet br /\ sl = None).
Proof.
  induction brs as [|[x sl0] t IH]; intros k.
  - split; [intros _ j br sl H; destruct j; discriminate|auto].
  - split.
    + intros [H1 H2] j br sl Hj. destruct j as [|j]; cbn in Hj.
      * inversion Hj; subst. rewrite Nat.add_0_r. exact H1.
      * pose proof (proj1 (IH (S k)) H2) as H2'. clear H2. rename H2' into H2. specialize (H2 j br sl Hj). replace (k + S j) with (S k + j) by lia. exact H2.
    + intros H. split.
      * specialize (H O x sl0 eq_refl). rewrite Nat.add_0_r in H. exact H.
      * apply (proj2 (IH (S k))). intros j br sl Hj. specialize (H (S j) br sl Hj). replace (k + S j) with (S k + j) in H by lia. exact H.
Qed.

Lemma inv_merge up brs file idx done :
  inv (MMerge up brs file idx done) <->
  inv up /\ done = false /\ idx < length brs /\ length file = length brs /\ merge_brs_inv idx brs.
Proof. cbn [inv]. rewrite (merge_fix_view idx brs O). unfold merge_brs_inv. cbn [Nat.add]. tauto. Qed.

Lemma inv_or_none up brs : inv (MOr up brs None) <-> inv up /\ all_quiet_or brs.
Proof.
  cbn [inv].
  assert (forall l, (fix all (l : list (mach * option stack)) : Prop :=
                       match l with [] => True | (x, sl) :: t => quiet x /\ sl = None /\ all t end) l <-> all_quiet_or l) as A.
  { induction l as [|[x sl] l IH]; [split; [constructor|auto]|]. split.
    - intros [H1 [H2 H3]]. constructor; [cbn; auto|apply IH; exact H3].
    - intros H. inversion H as [|? ? [Q1 Q2] Q3]; subst. cbn in *. split; [assumption|split; [assumption|apply IH; assumption]]. }
  rewrite A. tauto.
Qed.

Lemma inv_or_some up brs i : inv (MOr up brs (Some i)) <-> inv up /\ i < length brs /\ or_brs_inv i brs.
Proof. cbn [inv]. rewrite (or_fix_view i brs O). unfold or_brs_inv. cbn [Nat.add]. tauto. Qed.

(* a pristine chain is a legitimate working state *)
Fixpoint msize (m : mach) : nat :=
  match m with
  | MLeaf => 1
  | MNop up | MDebug up | MConst up _ | MBind up _ | MRead up _ | MUpread up _ | MLexClosure up _ _ | MAssert up _ | MWord up _ _ => S (msize up)
  | MMerge up brs _ _ _ => S (msize up + (fix sum (l : list mach) : nat := match l with [] => 0 | x :: t => msize x + sum t end) brs)
  | MOr up brs _ => S (msize up + (fix sum (l : list (mach * option stack)) : nat := match l with [] => 0 | (x, _) :: t => msize x + sum t end) brs)
  | MCapture up inner => S (msize up + msize inner)
  | MSubx up inner _ _ _ => S (msize up + msize inner)
  | MClosure up inner _ _ _ _ _ => S (msize up + msize inner)
  | MApply up _ _ => S (msize up)
  | MIfElse up cnd thn els _ => S (msize up + msize cnd + msize thn + msize els)
  | MFormat up parts _ _ =>
    S (msize up + (fix sum (l : list part) : nat :=
                     match l with [] => 0 | PLit _ :: t => sum t | POp inner _ _ :: t => msize inner + sum t end) parts)
  end.

Lemma msize_in_parts inner slot cur : forall parts, In (POp inner slot cur) parts ->
  msize inner <= (fix sum (l : list part) : nat :=
                    match l with [] => 0 | PLit _ :: t => sum t | POp inner _ _ :: t => msize inner + sum t end) parts.
Proof.
  induction parts as [|[str|i2 s2 c2] t IH]; intros H; [contradiction| |].
  - destruct H as [E|H]; [discriminate|apply IH; exact H].
  - destruct H as [E|H]; [inversion E; subst; lia|apply IH in H; lia].
Qed.

Lemma msize_in_merge x : forall brs, In x brs ->
  msize x <= (fix sum (l : list mach) : nat := match l with [] => 0 | x :: t => msize x + sum t end) brs.
Proof. induction brs as [|y t IH]; intros H; [contradiction|]. destruct H as [->|H]; [lia|apply IH in H; lia]. Qed.

Lemma msize_in_or x sl : forall brs, In (x, sl) brs ->
  msize x <= (fix sum (l : list (mach * option stack)) : nat := match l with [] => 0 | (x, _) :: t => msize x + sum t end) brs.
Proof. induction brs as [|[y sy] t IH]; intros H; [contradiction|]. destruct H as [E|H]; [inversion E; subst; lia|apply IH in H; lia]. Qed.

Lemma quiet_inv_n : forall n m, msize m <= n -> quiet m -> inv m.
Proof.
  induction n as [|n IH]; intros m Hs; [destruct m; cbn in Hs; lia|].
  destruct m; try (cbn [quiet inv]; auto; fail);
    try (cbn [quiet inv]; intros H; apply IH; [cbn [msize] in Hs; lia|exact H]; fail).
  - (* MFormat *) intros H. apply quiet_format in H. destruct H as [Hu [Hp ->]]. cbn [msize] in Hs.
    apply inv_format. split; [apply IH; [lia|exact Hu]|].
    rewrite Forall_forall in *. intros [str|inner slot cur] Hin; [exact I|].
    destruct (Hp _ Hin) as [Q1 [-> ->]]. split; [|intros _; auto].
    apply IH; [|exact Q1]. pose proof (msize_in_parts inner None None parts Hin). lia.
  - (* MMerge *) intros H. apply quiet_merge in H. destruct H as [Hu [Hb [Hf [-> [-> [Hl Hn]]]]]].
    cbn [msize] in Hs.
    apply inv_merge. split; [apply IH; [lia|exact Hu]|]. split; [reflexivity|]. split; [destruct brs; [congruence|cbn; lia]|]. split; [exact Hl|].
    intros j br Hj. unfold all_quiet in Hb. rewrite Forall_forall in Hb. apply nth_error_In in Hj. pose proof (Hb _ Hj) as Q.
    destruct (Nat.eqb j 0); [|exact Q]. apply IH; [|exact Q]. pose proof (msize_in_merge br brs Hj). lia.
  - (* MOr *) intros H. apply quiet_or in H. destruct H as [Hu [Hb ->]]. cbn [msize] in Hs. apply inv_or_none. split; [apply IH; [lia|exact Hu]|exact Hb].
  - (* MCapture *) cbn [quiet inv msize] in *. intros [H1 H2]. split; [apply IH; [lia|exact H1]|exact H2].
  - (* MClosure *) cbn [quiet inv msize] in *. intros [H1 [H2 [-> [-> [-> ->]]]]]. split; [apply IH; [lia|exact H1]|]. split; [apply IH; [lia|exact H2]|]. intros _. auto.
  - (* MSubx *) cbn [quiet inv msize] in *. intros [H1 [H2 [-> ->]]]. split; [apply IH; [lia|exact H1]|]. split; [apply IH; [lia|exact H2]|]. intros _. auto.
  - (* MIfElse *) cbn [quiet inv msize] in *. intros [H1 [H2 [H3 [H4 ->]]]]. split; [apply IH; [lia|exact H1]|]. repeat split; auto.
  - (* MWord *) cbn [quiet inv msize] in *. intros [H1 _]. apply IH; [lia|exact H1].
  - (* MApply *) cbn [quiet inv msize] in *. intros [H1 ->]. split; [apply IH; [lia|exact H1]|exact I].
Qed.

Lemma quiet_inv m : quiet m -> inv m.
Proof. apply (quiet_inv_n (msize m)). lia. Qed.

(* ---- leaf contexts ---- *)
Fixpoint nodone (c : lctx) : Prop :=
  match c with LOrigin _ => True | LTine _ _ done _ uc => done = false /\ nodone uc end.
Fixpoint cinv (c : lctx) : Prop :=
  match c with LOrigin _ => True | LTine i file _ up uc => i < length file /\ inv up /\ cinv uc end.
Fixpoint shape (c c' : lctx) : Prop :=
  match c, c' with
  | LOrigin _, LOrigin _ => True
  | LTine i f _ _ uc, LTine i' f' _ _ uc' => i' = i /\ length f' = length f /\ shape uc uc'
  | _, _ => False
  end.
(* what a context looks like after a pull that returned a stack (none = false) or nothing (none = true) *)
Fixpoint cpost (c' : lctx) (none : bool) : Prop :=
  match c' with
  | LOrigin sl' => none = true -> sl' = None
  | LTine _ file done up uc =>
    if done then none = true /\ quiet up /\ all_none file = true /\ cpost uc true else nodone uc
  end.

Definition isnone {A} (o : option A) : bool := match o with None => true | Some _ => false end.

Lemma shape_refl c : shape c c.
Proof. induction c as [sl|i f d up uc IH]; cbn; auto. Qed.
Lemma shape_trans : forall a b c, shape a b -> shape b c -> shape a c.
Proof.
  induction a as [sl|i f d up uc IH]; intros [sl'|i' f' d' up' uc'] [sl''|i'' f'' d'' up'' uc'']; cbn; try tauto.
  intros [-> [L1 S1]] [-> [L2 S2]]. split; [reflexivity|]. split; [congruence|]. eapply IH; eauto.
Qed.
Lemma cpost_false_nodone c : cpost c false -> nodone c.
Proof. destruct c as [sl|i f d up uc]; cbn; [auto|]. destruct d; [intros [H _]; discriminate|auto]. Qed.
Lemma nodone_cpost_false c : nodone c -> cpost c false.
Proof. destruct c as [sl|i f d up uc]; cbn; [discriminate|]. intros [-> H]. exact H. Qed.

Lemma add_errs_ret e0 X r m' c' s' e :
  add_errs e0 X = Ret (r, m', c', s', e) -> exists e1, X = Ret (r, m', c', s', e1).
Proof. destruct X as [| | |[[[[r0 m0] c0] s0] e1]]; cbn; try discriminate. intros H. inversion H; subst. eauto. Qed.

Lemma set_nth_length {A} (x : A) : forall l i, length (set_nth i x l) = length l.
Proof. induction l as [|h t IH]; intros [|i]; cbn; auto. Qed.
Lemma nth_error_set_nth_eq {A} (x : A) : forall l i, i < length l -> nth_error (set_nth i x l) i = Some x.
Proof. induction l as [|h t IH]; intros [|i] H; cbn in *; try lia; auto. apply IH. lia. Qed.
Lemma nth_error_set_nth_neq {A} (x : A) : forall l i j, i <> j -> nth_error (set_nth i x l) j = nth_error l j.
Proof. induction l as [|h t IH]; intros [|i] [|j] H; cbn; auto; try congruence. Qed.
Lemma nth_map_some {A} (v : A) : forall (l : list (option A)) i, i < length l -> nth i (map (fun _ => Some v) l) None = Some v.
Proof. induction l as [|h t IH]; intros [|i] H; cbn in *; try lia; auto. apply IH. lia. Qed.

(* ---- unfolding equations of `next` for the ops of the fragment ---- *)
Lemma next_leaf_origin f env sl s : next (S f) env MLeaf (LOrigin sl) s = Ret (sl, MLeaf, LOrigin None, s, []).
Proof. reflexivity. Qed.
Lemma next_leaf_tine f env i file done up uc s :
  next (S f) env MLeaf (LTine i file done up uc) s =
  if done then Ret (None, MLeaf, LTine i file done up uc, s, [])
  else if all_none file then
    match next f env up uc s with
    | Ret (Some stk, up', uc', s', e) =>
      let file' := map (fun _ => Some stk) file in
      Ret (nth i file' None, MLeaf, LTine i (set_nth i None file') false up' uc', s', e)
    | Ret (None, up', uc', s', e) => Ret (None, MLeaf, LTine i file true up' uc', s', e)
    | o => o
    end
  else Ret (nth i file None, MLeaf, LTine i (set_nth i None file) done up uc, s, []).
Proof. reflexivity. Qed.

(* the bodies of the program's blocks are stored as constructed *)
Hypothesis blks_quiet : Forall quiet blks.

Definition Main (f : nat) : Prop :=
  forall env m c s r m' c' s' e, inv m -> cinv c -> nodone c ->
    next f env m c s = Ret (r, m', c', s', e) ->
    inv m' /\ cinv c' /\ shape c c' /\ cpost c' (isnone r) /\ (r = None -> quiet m').

Ltac pull H Eu :=
  match type of H with
  | match next ?f ?env ?up ?c ?s with _ => _ end = _ =>
    destruct (next f env up c s) as [| | |[[[[?ru ?up'] ?cu] ?su] ?eu]] eqn:Eu; try discriminate
  end.

Lemma case_leaf f : Main f -> forall env c s r m' c' s' e, cinv c -> nodone c ->
  next (S f) env MLeaf c s = Ret (r, m', c', s', e) ->
  inv m' /\ cinv c' /\ shape c c' /\ cpost c' (isnone r) /\ (r = None -> quiet m').
Proof.
  intros IHf env c s r m' c' s' e Hc Hn H. destruct c as [sl|i file done up uc].
  - rewrite next_leaf_origin in H. inversion H; subst. cbn. repeat split; auto.
  - cbn [cinv nodone] in Hc, Hn. destruct Hc as [Hi [Hup Huc]]. destruct Hn as [-> Hnd].
    rewrite next_leaf_tine in H. cbn iota in H.
    destruct (all_none file) eqn:AN.
    + pull H Eu. destruct (IHf _ _ _ _ _ _ _ _ _ Hup Huc Hnd Eu) as [I1 [I2 [I3 [I4 I5]]]].
      destruct ru as [stk|].
      * cbn zeta in H. inversion H; subst. rewrite nth_map_some by exact Hi. cbn [isnone].
        cbn [inv cinv shape cpost quiet]. rewrite set_nth_length, map_length.
        repeat split; auto; try (apply cpost_false_nodone; exact I4); try discriminate.
      * inversion H; subst. cbn [isnone inv cinv shape cpost quiet]. repeat split; auto.
    + inversion H; subst. cbn [inv cinv shape cpost quiet]. rewrite set_nth_length. repeat split; auto. apply shape_refl.
Qed.

Definition unary_form (wrap : mach -> mach) (g : stack -> store -> res (stack * store))
           (x : res pull) : res pull :=
  match x with
  | Ret (Some stk, up', c1, s1, e1) =>
    match g stk s1 with Ret (stk', s2) => Ret (Some stk', wrap up', c1, s2, e1) | Fuel => Fuel | Stuck => Stuck | Abort => Abort end
  | Ret (None, up', c1, s1, e1) => Ret (None, wrap up', c1, s1, e1)
  | o => o
  end.

(* ops that hand every stack on, possibly changed, one for one *)
Lemma case_unary f (wrap : mach -> mach) (g : stack -> store -> res (stack * store)) :
  Main f ->
  (forall up, inv (wrap up) <-> inv up) -> (forall up, quiet (wrap up) <-> quiet up) ->
  forall env up c s r m' c' s' e, inv up -> cinv c -> nodone c ->
  unary_form wrap g (next f env up c s) = Ret (r, m', c', s', e) ->
  inv m' /\ cinv c' /\ shape c c' /\ cpost c' (isnone r) /\ (r = None -> quiet m').
Proof.
  intros IHf Wi Wq env up c s r m' c' s' e Hup Hc Hn H. unfold unary_form in H.
  pull H Eu. destruct (IHf _ _ _ _ _ _ _ _ _ Hup Hc Hn Eu) as [I1 [I2 [I3 [I4 I5]]]].
  destruct ru as [stk|].
  - destruct (g stk su) as [| | |[stk' s2]]; try discriminate. inversion H; subst. cbn [isnone] in *.
    repeat split; auto; [apply Wi; exact I1|discriminate].
  - inversion H; subst. repeat split; auto; [apply Wi; exact I1|]. intros _. apply Wq. apply I5. reflexivity.
Qed.

Ltac unary_eq := intros; cbn [next]; unfold unary_form;
  match goal with |- context [next ?f ?env ?up ?c ?s] => destruct (next f env up c s) as [| | |[[[[[stk|] up'] c1] s1] e1]] end;
  try reflexivity.

Lemma next_nop f env up c s : next (S f) env (MNop up) c s = unary_form MNop (fun stk s1 => Ret (stk, s1)) (next f env up c s).
Proof. unary_eq. Qed.
Lemma next_debug f env up c s : next (S f) env (MDebug up) c s = unary_form MDebug (fun stk s1 => Ret (stk, s1)) (next f env up c s).
Proof. unary_eq. Qed.
Lemma next_const f env up v c s : next (S f) env (MConst up v) c s = unary_form (fun u => MConst u v) (fun stk s1 => Ret (v :: stk, s1)) (next f env up c s).
Proof. unary_eq. Qed.
Lemma next_bind f env up id c s : next (S f) env (MBind up id) c s =
  unary_form (fun u => MBind u id) (fun stk s1 => match stk with v :: r => Ret (r, update s1 id v) | [] => Abort end) (next f env up c s).
Proof. unary_eq. destruct stk; reflexivity. Qed.
Lemma next_read f env up id c s : next (S f) env (MRead up id) c s =
  unary_form (fun u => MRead u id) (fun stk s1 => match lookup s1 id with Some v => Ret (v :: stk, s1) | None => Stuck end) (next f env up c s).
Proof. unary_eq. destruct (lookup s1 id); reflexivity. Qed.
Lemma next_upread f env up id c s : next (S f) env (MUpread up id) c s =
  unary_form (fun u => MUpread u id) (fun stk s1 => match nth_error env id with Some v => Ret (v :: stk, s1) | None => Stuck end) (next f env up c s).
Proof. unary_eq. destruct (nth_error env id); reflexivity. Qed.
Lemma next_lexclosure f env up blk n c s : next (S f) env (MLexClosure up blk n) c s =
  unary_form (fun u => MLexClosure u blk n)
             (fun stk s1 => match pop_n n stk with Some (vs, rest) => Ret (VClo blk vs 0%N :: rest, s1) | None => Abort end) (next f env up c s).
Proof. unary_eq. destruct (pop_n n stk) as [[vs rest]|]; reflexivity. Qed.

Definition Concl (c : lctx) (r : option stack) (m' : mach) (c' : lctx) : Prop :=
  inv m' /\ cinv c' /\ shape c c' /\ cpost c' (isnone r) /\ (r = None -> quiet m').

(* a second pull after a first one that returned a stack *)
Lemma chain_concl c c1 r m' c' : shape c c1 -> Concl c1 r m' c' -> Concl c r m' c'.
Proof. intros S [A [B [C [D E]]]]. repeat split; auto. eapply shape_trans; eauto. Qed.

Lemma case_word f : Main f -> forall env up w pending c s r m' c' s' e, inv up -> cinv c -> nodone c ->
  next (S f) env (MWord up w pending) c s = Ret (r, m', c', s', e) -> Concl c r m' c'.
Proof.
  intros IHf env up w pending c s r m' c' s' e Hup Hc Hn H. cbn [next] in H.
  destruct pending as [|stk rest].
  - pull H Eu. destruct (IHf _ _ _ _ _ _ _ _ _ Hup Hc Hn Eu) as [I1 [I2 [I3 [I4 I5]]]].
    destruct ru as [stk|].
    + destruct (run_word P w stk) as [|outs e'] eqn:W; [discriminate|]. destruct outs as [|o outs].
      * apply add_errs_ret in H. destruct H as [e1 H]. cbn [isnone] in I4.
        eapply chain_concl; [exact I3|]. eapply (IHf _ (MWord up' w []) cu); eauto. apply cpost_false_nodone. exact I4.
      * inversion H; subst. unfold Concl. repeat split; auto; congruence.
    + inversion H; subst. assert (quiet up') as Q by (apply I5; reflexivity). unfold Concl. repeat split; auto; try congruence; cbn [quiet]; auto.
  - inversion H; subst. unfold Concl. repeat split; auto; try congruence; [apply shape_refl|apply nodone_cpost_false; exact Hn].
Qed.

(* predicates never touch the chain: they run on a pristine sub-chain and only the store and diagnostics come back *)
Lemma case_assert f : Main f -> forall env up p c s r m' c' s' e, inv up -> cinv c -> nodone c ->
  next (S f) env (MAssert up p) c s = Ret (r, m', c', s', e) -> Concl c r m' c'.
Proof.
  intros IHf env up p c s r m' c' s' e Hup Hc Hn H. cbn [next] in H.
  pull H Eu. destruct (IHf _ _ _ _ _ _ _ _ _ Hup Hc Hn Eu) as [I1 [I2 [I3 [I4 I5]]]].
  destruct ru as [stk|].
  - destruct (peval P (next f) env p stk su) as [| | |[[pr s2] e2]]; try discriminate.
    cbn [isnone] in I4.
    assert (forall X, add_errs (eu ++ e2) (next f env (MAssert up' p) cu s2) = Ret X -> Concl c (fst (fst (fst (fst X)))) (snd (fst (fst (fst X)))) (snd (fst (fst X)))) as REC.
    { intros [[[[r0 m0] c0] s0] e0] HX. apply add_errs_ret in HX. destruct HX as [e1 HX]. cbn [fst snd].
      eapply chain_concl; [exact I3|]. eapply (IHf _ (MAssert up' p) cu); eauto. apply cpost_false_nodone. exact I4. }
    destruct pr; try (exact (REC _ H)).
    inversion H; subst. unfold Concl. repeat split; auto; congruence.
  - inversion H; subst. assert (quiet up') as Q by (apply I5; reflexivity). unfold Concl. repeat split; auto; try congruence; cbn [quiet]; auto.
Qed.

Lemma case_capture f : Main f -> forall env up inner c s r m' c' s' e, inv up -> quiet inner -> cinv c -> nodone c ->
  next (S f) env (MCapture up inner) c s = Ret (r, m', c', s', e) -> Concl c r m' c'.
Proof.
  intros IHf env up inner c s r m' c' s' e Hup Hq Hc Hn H. cbn [next] in H.
  pull H Eu. destruct (IHf _ _ _ _ _ _ _ _ _ Hup Hc Hn Eu) as [I1 [I2 [I3 [I4 I5]]]].
  destruct ru as [stk|].
  - destruct (drain (next f) f env inner (LOrigin (Some stk)) su [] eu) as [| | |[[vs s2] e2]]; try discriminate.
    inversion H; subst. unfold Concl. repeat split; auto; congruence.
  - inversion H; subst. assert (quiet up') as Q by (apply I5; reflexivity). unfold Concl. repeat split; auto; try congruence; cbn [quiet]; auto.
Qed.

Ltac concl := unfold Concl; split; [|split; [|split; [|split]]].

(* a pull of a sub-chain that sits on its own origin *)
Lemma sub_pull f : Main f -> forall env m sl s r m' c' s' e, inv m ->
  next f env m (LOrigin sl) s = Ret (r, m', c', s', e) ->
  inv m' /\ (exists sl', c' = LOrigin sl' /\ (r = None -> sl' = None)) /\ (r = None -> quiet m').
Proof.
  intros IHf env m sl s r m' c' s' e Hm H.
  assert (cinv (LOrigin sl)) as C1 by exact I. assert (nodone (LOrigin sl)) as C2 by exact I.
  destruct (IHf _ _ _ _ _ _ _ _ _ Hm C1 C2 H) as [I1 [I2 [I3 [I4 I5]]]].
  split; [exact I1|]. split; [|exact I5].
  destruct c' as [sl'|]; [|cbn in I3; contradiction]. exists sl'. split; [reflexivity|].
  intros ->. cbn in I4. apply I4. reflexivity.
Qed.

Lemma case_subx f : Main f -> forall env up inner keep saved slot c s r m' c' s' e,
  inv (MSubx up inner keep saved slot) -> cinv c -> nodone c ->
  next (S f) env (MSubx up inner keep saved slot) c s = Ret (r, m', c', s', e) -> Concl c r m' c'.
Proof.
  intros IHf env up inner keep saved slot c s r m' c' s' e [Hup [Hin Hsv]] Hc Hn H. cbn [next] in H.
  destruct saved as [sv|].
  - destruct (next f env inner (LOrigin slot) s) as [| | |[[[[ri inner'] ci] si] ei]] eqn:Ei; try discriminate.
    destruct (sub_pull f IHf _ _ _ _ _ _ _ _ _ Hin Ei) as [J1 [[sl' [-> J2]] J3]].
    destruct ri as [rs|].
    + destruct (subx_result keep rs sv); [|discriminate]. inversion H; subst. concl.
      * cbn [inv]. repeat split; auto; congruence.
      * exact Hc.
      * apply shape_refl.
      * apply nodone_cpost_false. exact Hn.
      * congruence.
    + apply add_errs_ret in H. destruct H as [e1 H].
      eapply (IHf _ (MSubx up inner' keep None sl') c); eauto.
      cbn [inv]. repeat split; auto.
  - destruct (Hsv eq_refl) as [Qin ->].
    pull H Eu. destruct (IHf _ _ _ _ _ _ _ _ _ Hup Hc Hn Eu) as [I1 [I2 [I3 [I4 I5]]]].
    destruct ru as [stk|].
    + apply add_errs_ret in H. destruct H as [e1 H]. cbn [isnone] in I4.
      eapply chain_concl; [exact I3|]. eapply (IHf _ (MSubx up' inner keep (Some stk) (Some stk)) cu); eauto.
      * cbn [inv]. repeat split; auto; congruence.
      * apply cpost_false_nodone. exact I4.
    + inversion H; subst. assert (quiet up') as Q by (apply I5; reflexivity). concl; auto.
      * cbn [inv]. repeat split; auto.
      * intros _. cbn [quiet]. repeat split; auto.
Qed.

Lemma case_ifelse f : Main f -> forall env up cnd thn els active c s r m' c' s' e,
  inv (MIfElse up cnd thn els active) -> cinv c -> nodone c ->
  next (S f) env (MIfElse up cnd thn els active) c s = Ret (r, m', c', s', e) -> Concl c r m' c'.
Proof.
  intros IHf env up cnd thn els active c s r m' c' s' e [Hup [Qc [Qt [Qe Hact]]]] Hc Hn H. cbn [next] in H.
  destruct active as [[am sl]|].
  - destruct (next f env am (LOrigin sl) s) as [| | |[[[[ri am'] ci] si] ei]] eqn:Ei; try discriminate.
    destruct (sub_pull f IHf _ _ _ _ _ _ _ _ _ Hact Ei) as [J1 [[sl' [-> J2]] J3]].
    destruct ri as [rs|].
    + inversion H; subst. concl.
      * cbn [inv]. repeat split; auto.
      * exact Hc.
      * apply shape_refl.
      * apply nodone_cpost_false. exact Hn.
      * congruence.
    + apply add_errs_ret in H. destruct H as [e1 H].
      eapply (IHf _ (MIfElse up cnd thn els None) c); eauto. cbn [inv]. repeat split; auto.
  - pull H Eu. destruct (IHf _ _ _ _ _ _ _ _ _ Hup Hc Hn Eu) as [I1 [I2 [I3 [I4 I5]]]].
    destruct ru as [stk|].
    + cbn [isnone] in I4.
      destruct (next f env cnd (LOrigin (Some stk)) su) as [| | |[[[[rc cm] cc] sc] ec]] eqn:Ec; try discriminate.
      destruct rc as [rcs|]; apply add_errs_ret in H; destruct H as [e1 H];
      (eapply chain_concl; [exact I3|]);
      [eapply (IHf _ (MIfElse up' cnd thn els (Some (thn, Some stk))) cu)|eapply (IHf _ (MIfElse up' cnd thn els (Some (els, Some stk))) cu)]; eauto;
      try (apply cpost_false_nodone; exact I4); cbn [inv]; repeat split; auto; apply quiet_inv; assumption.
    + inversion H; subst. assert (quiet up') as Q by (apply I5; reflexivity). concl; auto.
      * cbn [inv]. repeat split; auto.
      * intros _. cbn [quiet]. repeat split; auto.
Qed.

Lemma all_quiet_or_nth brs : all_quiet_or brs <-> (forall j br sl, nth_error brs j = Some (br, sl) -> quiet br /\ sl = None).
Proof.
  unfold all_quiet_or. rewrite Forall_forall. split.
  - intros H j br sl Hj. apply nth_error_In in Hj. apply (H _ Hj).
  - intros H [br sl] Hin. apply In_nth_error in Hin. destruct Hin as [j Hj]. apply (H j br sl Hj).
Qed.

Lemma or_try_spec f : Main f -> forall post pre i env stk s errs r brs' s' e',
  all_quiet_or pre -> all_quiet_or post -> i = length pre ->
  or_try (next f) env pre post i stk s errs = Ret (r, brs', s', e') ->
  match r with
  | Some (_, k) => k < length brs' /\ or_brs_inv k brs'
  | None => all_quiet_or brs'
  end.
Proof.
  intros IHf. induction post as [|[br sl0] post' IH]; intros pre i env stk s errs r brs' s' e' Qpre Qpost Hi H; cbn [or_try] in H.
  - inversion H; subst. exact Qpre.
  - inversion Qpost as [|? ? [Qbr Qsl] Qpost']; subst. cbn [fst snd] in *.
    destruct (next f env br (LOrigin (Some stk)) s) as [| | |[[[[rb br'] cb] sb] eb]] eqn:Eb; try discriminate.
    destruct (sub_pull f IHf _ _ _ _ _ _ _ _ _ (quiet_inv _ Qbr) Eb) as [J1 [[sl' [-> J2]] J3]].
    destruct rb as [rs|].
    + inversion H; subst. split.
      * rewrite app_length. cbn. lia.
      * intros j b sl Hj. destruct (Nat.eqb_spec j (length pre)) as [->|NE].
        -- rewrite nth_error_app2 in Hj by lia. rewrite Nat.sub_diag in Hj. cbn in Hj. inversion Hj; subst. exact J1.
        -- destruct (Nat.lt_ge_cases j (length pre)) as [L|G].
           ++ rewrite nth_error_app1 in Hj by exact L. apply (proj1 (all_quiet_or_nth pre) Qpre j b sl Hj).
           ++ rewrite nth_error_app2 in Hj by lia. destruct (j - length pre) as [|k] eqn:D; [lia|]. cbn in Hj.
              apply (proj1 (all_quiet_or_nth post') Qpost' k b sl Hj).
    + apply (IH (pre ++ [(br', sl')]) (S (length pre)) env stk sb (errs ++ eb) r brs' s' e').
      * unfold all_quiet_or. apply Forall_app. split; [exact Qpre|]. constructor; [|constructor]. cbn. split; [apply J3; reflexivity|apply J2; reflexivity].
      * exact Qpost'.
      * rewrite app_length. cbn [length]. lia.
      * exact H.
Qed.

Lemma case_or f : Main f -> forall env up brs cur c s r m' c' s' e,
  inv (MOr up brs cur) -> cinv c -> nodone c ->
  next (S f) env (MOr up brs cur) c s = Ret (r, m', c', s', e) -> Concl c r m' c'.
Proof.
  intros IHf env up brs cur c s r m' c' s' e Hinv Hc Hn H. cbn [next] in H.
  destruct cur as [i|].
  - apply inv_or_some in Hinv. destruct Hinv as [Hup [Hi Hb]].
    destruct (nth_error brs i) as [[br sl]|] eqn:Ni; [|discriminate].
    pose proof (Hb i br sl Ni) as Hbr. rewrite Nat.eqb_refl in Hbr.
    destruct (next f env br (LOrigin sl) s) as [| | |[[[[rb br'] cb] sb] eb]] eqn:Eb; try discriminate.
    destruct (sub_pull f IHf _ _ _ _ _ _ _ _ _ Hbr Eb) as [J1 [[sl' [-> J2]] J3]].
    destruct rb as [rs|].
    + inversion H; subst. concl.
      * apply inv_or_some. split; [exact Hup|]. split; [rewrite set_nth_length; exact Hi|].
        intros j b sl0 Hj. destruct (Nat.eqb_spec j i) as [->|NE].
        -- rewrite nth_error_set_nth_eq in Hj by exact Hi. inversion Hj; subst. exact J1.
        -- rewrite nth_error_set_nth_neq in Hj by congruence. pose proof (Hb j b sl0 Hj) as Q.
           destruct (Nat.eqb_spec j i); [congruence|exact Q].
      * exact Hc.
      * apply shape_refl.
      * apply nodone_cpost_false. exact Hn.
      * congruence.
    + apply add_errs_ret in H. destruct H as [e1 H].
      eapply (IHf _ (MOr up (set_nth i (br', sl') brs) None) c); eauto.
      apply inv_or_none. split; [exact Hup|]. apply all_quiet_or_nth. intros j b sl0 Hj.
      destruct (Nat.eqb_spec j i) as [->|NE].
      * rewrite nth_error_set_nth_eq in Hj by exact Hi. inversion Hj; subst. split; [apply J3; reflexivity|apply J2; reflexivity].
      * rewrite nth_error_set_nth_neq in Hj by congruence. pose proof (Hb j b sl0 Hj) as Q.
        destruct (Nat.eqb_spec j i); [congruence|exact Q].
  - apply inv_or_none in Hinv. destruct Hinv as [Hup Hb].
    pull H Eu. destruct (IHf _ _ _ _ _ _ _ _ _ Hup Hc Hn Eu) as [I1 [I2 [I3 [I4 I5]]]].
    destruct ru as [stk|].
    + cbn [isnone] in I4.
      destruct (or_try (next f) env [] brs 0 stk su eu) as [| | |[[[ro brs'] so] eo]] eqn:Eo; try discriminate.
      pose proof (or_try_spec f IHf brs [] 0 env stk su eu ro brs' so eo (Forall_nil _) Hb eq_refl Eo) as SP.
      destruct ro as [[rs k]|].
      * destruct SP as [Hk Hbk]. inversion H; subst. concl; auto.
        -- apply inv_or_some. repeat split; auto.
        -- congruence.
      * apply add_errs_ret in H. destruct H as [e1 H].
        eapply chain_concl; [exact I3|]. eapply (IHf _ (MOr up' brs' None) cu); eauto.
        -- apply inv_or_none. split; auto.
        -- apply cpost_false_nodone. exact I4.
    + inversion H; subst. assert (quiet up') as Q by (apply I5; reflexivity). concl; auto.
      * apply inv_or_none. split; auto.
      * intros _. apply quiet_or. repeat split; auto.
Qed.

Lemma all_quiet_nth brs : all_quiet brs <-> (forall j br, nth_error brs j = Some br -> quiet br).
Proof.
  unfold all_quiet. rewrite Forall_forall. split.
  - intros H j br Hj. apply nth_error_In in Hj. apply (H _ Hj).
  - intros H br Hin. apply In_nth_error in Hin. destruct Hin as [j Hj]. apply (H j br Hj).
Qed.

Lemma case_merge f : Main f -> forall env up brs file idx done c s r m' c' s' e,
  inv (MMerge up brs file idx done) -> cinv c -> nodone c ->
  next (S f) env (MMerge up brs file idx done) c s = Ret (r, m', c', s', e) -> Concl c r m' c'.
Proof.
  intros IHf env up brs file idx done c s r m' c' s' e Hinv Hc Hn H. cbn [next] in H.
  apply inv_merge in Hinv. destruct Hinv as [Hup [-> [Hidx [Hlen Hb]]]]. cbn iota in H.
  destruct (nth_error brs idx) as [br|] eqn:Ni; [|discriminate].
  pose proof (Hb idx br Ni) as Hbr. rewrite Nat.eqb_refl in Hbr.
  assert (cinv (LTine idx file false up c)) as C1 by (cbn [cinv]; repeat split; auto; lia).
  assert (nodone (LTine idx file false up c)) as C2 by (cbn [nodone]; auto).
  destruct (next f env br (LTine idx file false up c) s) as [| | |[[[[rb br'] cb] sb] eb]] eqn:Eb; try discriminate.
  destruct (IHf _ _ _ _ _ _ _ _ _ Hbr C1 C2 Eb) as [I1 [I2 [I3 [I4 I5]]]].
  destruct cb as [slb|i' file' done' up' cu]; [cbn in I3; contradiction|].
  cbn [shape] in I3. destruct I3 as [-> [Lf Sh]]. cbn [cinv] in I2. destruct I2 as [Hi' [Hup' Hcu]].
  cbn zeta in H.
  (* the other branches are pristine; the current one is what the pull left *)
  assert (forall j b, nth_error (set_nth idx br' brs) j = Some b -> j <> idx -> quiet b) as Others.
  { intros j b Hj NE. rewrite nth_error_set_nth_neq in Hj by congruence. pose proof (Hb j b Hj) as Q.
    destruct (Nat.eqb_spec j idx); [congruence|exact Q]. }
  assert (nth_error (set_nth idx br' brs) idx = Some br') as Cur by (apply nth_error_set_nth_eq; exact Hidx).
  destruct rb as [stk|].
  - (* a result: the branch keeps its state, nothing is done *)
    cbn [isnone cpost] in I4. destruct done'; [destruct I4 as [F _]; discriminate|].
    inversion H; subst. concl.
    + apply inv_merge. split; [exact Hup'|]. split; [reflexivity|]. split; [rewrite set_nth_length; exact Hidx|]. split; [rewrite set_nth_length; congruence|].
      intros j b Hj. destruct (Nat.eqb_spec j idx) as [->|NE]; [rewrite Cur in Hj; inversion Hj; subst; exact I1|eapply Others; eauto].
    + exact Hcu.
    + exact Sh.
    + apply nodone_cpost_false. exact I4.
    + congruence.
  - (* the branch is exhausted, hence pristine again *)
    assert (quiet br') as Qbr by (apply I5; reflexivity).
    assert (all_quiet (set_nth idx br' brs)) as Qall.
    { apply all_quiet_nth. intros j b Hj. destruct (Nat.eqb_spec j idx) as [->|NE]; [rewrite Cur in Hj; inversion Hj; subst; exact Qbr|eapply Others; eauto]. }
    cbn [isnone cpost] in I4. destruct done'.
    + (* upstream is exhausted too: the merge reports it and is back in its constructed state *)
      destruct I4 as [_ [Qup [AN Pcu]]]. inversion H; subst.
      assert (quiet (MMerge up' (set_nth idx br' brs) file' 0 false)) as Q.
      { apply quiet_merge. repeat split; auto; [rewrite set_nth_length; congruence|]. intros E. apply (f_equal (@length mach)) in E. rewrite set_nth_length in E. cbn in E. lia. }
      concl; auto. apply quiet_inv. exact Q.
    + (* another branch takes over *)
      apply add_errs_ret in H. destruct H as [e1 H].
      eapply chain_concl; [exact Sh|].
      eapply (IHf _ (MMerge up' (set_nth idx br' brs) file' (if Nat.eqb (S idx) (length brs) then 0 else S idx) false) cu); eauto.
      apply inv_merge. split; [exact Hup'|]. split; [reflexivity|]. rewrite set_nth_length.
      split; [destruct (Nat.eqb_spec (S idx) (length brs)); lia|]. split; [congruence|].
      intros j b Hj. rewrite all_quiet_nth in Qall. pose proof (Qall j b Hj) as Qb.
      destruct (Nat.eqb j (if Nat.eqb (S idx) (length brs) then 0 else S idx)); [apply quiet_inv; exact Qb|exact Qb].
Qed.

Lemma case_closure f : Main f -> forall env up inner plus slot seen stks drained c s r m' c' s' e,
  inv (MClosure up inner plus slot seen stks drained) -> cinv c -> nodone c ->
  next (S f) env (MClosure up inner plus slot seen stks drained) c s = Ret (r, m', c', s', e) -> Concl c r m' c'.
Proof.
  intros IHf env up inner plus slot seen stks drained c s r m' c' s' e [Hup [Hin Hdr]] Hc Hn H. cbn [next] in H.
  destruct drained; cbn [negb] in H; cbn iota in H.
  - destruct (Hdr eq_refl) as [Qin ->].
    destruct stks as [|stk rest].
    + pull H Eu. destruct (IHf _ _ _ _ _ _ _ _ _ Hup Hc Hn Eu) as [I1 [I2 [I3 [I4 I5]]]].
      destruct ru as [stk|].
      * cbn [isnone] in I4. destruct plus.
        -- apply add_errs_ret in H. destruct H as [e1 H]. eapply chain_concl; [exact I3|].
           eapply (IHf _ (MClosure up' inner true (Some stk) [] [] false) cu); eauto.
           ++ cbn [inv]. repeat split; auto; try (apply quiet_inv; exact Qin); try congruence.
           ++ apply cpost_false_nodone. exact I4.
        -- inversion H; subst. concl; auto; try congruence; cbn [inv]; repeat split; auto; try (apply quiet_inv; exact Qin); try congruence.
      * inversion H; subst. assert (quiet up') as Q by (apply I5; reflexivity). concl; auto.
        -- cbn [inv]. repeat split; auto; try (apply quiet_inv; exact Qin).
        -- intros _. cbn [quiet]. repeat split; auto.
    + eapply (IHf _ (MClosure up inner plus (Some stk) seen rest false) c); eauto.
      cbn [inv]. repeat split; auto; try (apply quiet_inv; exact Qin); try congruence.
  - destruct (next f env inner (LOrigin slot) s) as [| | |[[[[ri inner'] ci] si] ei]] eqn:Ei; try discriminate.
    destruct (sub_pull f IHf _ _ _ _ _ _ _ _ _ Hin Ei) as [J1 [[sl' [-> J2]] J3]].
    destruct ri as [rs|].
    + destruct (seen_mem rs seen).
      * apply add_errs_ret in H. destruct H as [e1 H].
        eapply (IHf _ (MClosure up inner' plus sl' seen stks false) c); eauto.
        cbn [inv]. repeat split; auto; congruence.
      * inversion H; subst. concl.
        -- cbn [inv]. repeat split; auto; congruence.
        -- exact Hc.
        -- apply shape_refl.
        -- apply nodone_cpost_false. exact Hn.
        -- congruence.
    + apply add_errs_ret in H. destruct H as [e1 H].
      eapply (IHf _ (MClosure up inner' plus sl' seen stks true) c); eauto.
      cbn [inv]. repeat split; auto.
Qed.

Lemma case_apply f : Main f -> forall env up skip sub c s r m' c' s' e,
  inv (MApply up skip sub) -> cinv c -> nodone c ->
  next (S f) env (MApply up skip sub) c s = Ret (r, m', c', s', e) -> Concl c r m' c'.
Proof.
  intros IHf env up skip sub c s r m' c' s' e [Hup Hsub] Hc Hn H. cbn [next] in H.
  destruct sub as [[[[bm bsl] bs] benv]|].
  - destruct (next f benv bm (LOrigin bsl) bs) as [| | |[[[[rb bm'] cb] sb] eb]] eqn:Eb; try discriminate.
    destruct (sub_pull f IHf _ _ _ _ _ _ _ _ _ Hsub Eb) as [J1 [[sl' [-> J2]] J3]].
    destruct rb as [rs|].
    + inversion H; subst. concl.
      * cbn [inv]. split; auto.
      * exact Hc.
      * apply shape_refl.
      * apply nodone_cpost_false. exact Hn.
      * congruence.
    + apply add_errs_ret in H. destruct H as [e1 H].
      eapply (IHf _ (MApply up skip None) c); eauto. cbn [inv]. split; auto.
  - pull H Eu. destruct (IHf _ _ _ _ _ _ _ _ _ Hup Hc Hn Eu) as [I1 [I2 [I3 [I4 I5]]]].
    destruct ru as [stk|].
    + cbn [isnone] in I4. destruct stk as [|v rest]; [discriminate|].
      assert (forall X, add_errs (eu ++ [SErr]) (next f env (MApply up' skip None) cu su) = Ret X ->
                        Concl c (fst (fst (fst (fst X)))) (snd (fst (fst (fst X)))) (snd (fst (fst X)))) as SKIP.
      { intros [[[[r0 m0] c0] s0] e0] HX. apply add_errs_ret in HX. destruct HX as [e1 HX]. cbn [fst snd].
        eapply chain_concl; [exact I3|]. eapply (IHf _ (MApply up' skip None) cu); eauto; try (apply cpost_false_nodone; exact I4); cbn [inv]; split; auto. }
      assert (Concl c (Some (v :: rest)) (MApply up' skip None) cu) as PASS.
      { concl; auto; try congruence; cbn [inv]; split; auto. }
      destruct v as [z d p|b p|l p|blk cenv p]; try (destruct skip; [inversion H; subst; exact PASS|exact (SKIP _ H)]).
      destruct (nth_error blks (N.to_nat blk)) as [body|] eqn:Nb; [|discriminate].
      apply add_errs_ret in H. destruct H as [e1 H].
      eapply chain_concl; [exact I3|]. eapply (IHf _ (MApply up' skip (Some (body, Some rest, [], cenv))) cu); eauto.
      * cbn [inv]. split; [exact I1|]. apply quiet_inv. rewrite Forall_forall in blks_quiet. apply blks_quiet. eapply nth_error_In; eauto.
      * apply cpost_false_nodone. exact I4.
    + inversion H; subst. assert (quiet up') as Q by (apply I5; reflexivity). concl; auto.
      * cbn [inv]. split; auto.
      * intros _. cbn [quiet]. split; auto.
Qed.


(* ---- the op of format strings: the chain of stringers, then the op itself ---- *)
Definition MainS (f : nat) : Prop :=
  forall env parts oslot s r parts' oslot' s' e, Forall pinv parts ->
    snext f env parts oslot s = Ret (r, parts', oslot', s', e) ->
    Forall pinv parts' /\ (r = None -> Forall pquiet parts' /\ oslot' = None).

Lemma snext_nil f env oslot s : snext (S f) env [] oslot s =
  match oslot with Some stk => Ret (Some (stk, []), [], None, s, []) | None => Ret (None, [], None, s, []) end.
Proof. reflexivity. Qed.

Lemma snext_lit f env str rest oslot s : snext (S f) env (PLit str :: rest) oslot s =
  match snext f env rest oslot s with
  | Ret (Some (stk, suffix), rest', oslot', s', e) => Ret (Some (stk, str ++ suffix), PLit str :: rest', oslot', s', e)
  | Ret (None, rest', oslot', s', e) => Ret (None, PLit str :: rest', oslot', s', e)
  | Fuel => Fuel | Stuck => Stuck | Abort => Abort
  end.
Proof. reflexivity. Qed.

Lemma snext_op_idle f env inner slot rest oslot s : snext (S f) env (POp inner slot None :: rest) oslot s =
  match snext f env rest oslot s with
  | Ret (Some (stk, suffix), rest', oslot', s', e) =>
    match snext f env (POp inner (Some stk) (Some suffix) :: rest') oslot' s' with
    | Ret (r, parts', oslot'', s'', e') => Ret (r, parts', oslot'', s'', e ++ e')
    | o => o
    end
  | Ret (None, rest', oslot', s', e) => Ret (None, POp inner slot None :: rest', oslot', s', e)
  | Fuel => Fuel | Stuck => Stuck | Abort => Abort
  end.
Proof. reflexivity. Qed.

Lemma snext_op_busy f env inner slot suffix rest oslot s : snext (S f) env (POp inner slot (Some suffix) :: rest) oslot s =
  match next f env inner (LOrigin slot) s with
  | Ret (Some (v :: stk), inner', LOrigin sl, s', e) =>
    Ret (Some (stk, show (p_tc P) v ++ suffix), POp inner' sl (Some suffix) :: rest, oslot, s', e)
  | Ret (Some [], _, _, _, _) => Abort
  | Ret (None, inner', LOrigin sl, s', e) =>
    match snext f env (POp inner' sl None :: rest) oslot s' with
    | Ret (r, parts', oslot', s'', e') => Ret (r, parts', oslot', s'', e ++ e')
    | o => o
    end
  | Ret _ => Stuck
  | Fuel => Fuel | Stuck => Stuck | Abort => Abort
  end.
Proof. reflexivity. Qed.

Lemma next_format f env up parts oslot pos c s : next (S f) env (MFormat up parts oslot pos) c s =
  match snext f env parts oslot s with
  | Ret (Some (stk, str), parts', oslot', s', e) =>
    Ret (Some (VStr str pos :: stk), MFormat up parts' oslot' (pos + 1)%N, c, s', e)
  | Ret (None, parts', oslot', s', e) =>
    match next f env up c s' with
    | Ret (Some stk, up', c', s'', e') => add_errs (e ++ e') (next f env (MFormat up' parts' (Some stk) 0%N) c' s'')
    | Ret (None, up', c', s'', e') => Ret (None, MFormat up' parts' oslot' pos, c', s'', e ++ e')
    | o => o
    end
  | Fuel => Fuel | Stuck => Stuck | Abort => Abort
  end.
Proof. reflexivity. Qed.

Lemma pquiet_pinv p : pquiet p -> pinv p.
Proof. destruct p as [str|inner slot cur]; cbn; auto. intros [Q [-> ->]]. split; [apply quiet_inv; exact Q|auto]. Qed.

Lemma case_snext f : Main f -> MainS f -> MainS (S f).
Proof.
  intros IHf IHs env parts oslot s r parts' oslot' s' e Hp H.
  destruct parts as [|[str|inner slot cur] rest].
  - rewrite snext_nil in H. destruct oslot; inversion H; subst; (split; [constructor|]); try discriminate. intros _. split; [constructor|reflexivity].
  - rewrite snext_lit in H. inversion Hp as [|? ? _ Hrest]; subst.
    destruct (snext f env rest oslot s) as [| | |[[[[rr rest'] os1] s1] e1]] eqn:E; try discriminate.
    destruct (IHs _ _ _ _ _ _ _ _ _ Hrest E) as [J1 J2].
    destruct rr as [[stk suffix]|]; inversion H; subst.
    + split; [constructor; [exact I|exact J1]|discriminate].
    + destruct (J2 eq_refl) as [K1 K2]. split; [constructor; [exact I|exact J1]|]. intros _. split; [constructor; [exact I|exact K1]|exact K2].
  - inversion Hp as [|? ? Hop Hrest]; subst. cbn [pinv] in Hop. destruct Hop as [Hin Hcur].
    destruct cur as [suffix|].
    + rewrite snext_op_busy in H.
      destruct (next f env inner (LOrigin slot) s) as [| | |[[[[ri inner'] ci] si] ei]] eqn:Ei; try discriminate.
      destruct (sub_pull f IHf _ _ _ _ _ _ _ _ _ Hin Ei) as [J1 [[sl' [-> J2]] J3]].
      destruct ri as [[|v stk]|]; try discriminate.
      * inversion H; subst. split; [|discriminate]. constructor; [|exact Hrest]. cbn [pinv]. split; [exact J1|discriminate].
      * destruct (snext f env (POp inner' sl' None :: rest) oslot si) as [| | |[[[[r2 parts2] os2] s2] e2]] eqn:E2; try discriminate.
        inversion H; subst. eapply IHs; [|exact E2]. constructor; [|exact Hrest]. cbn [pinv]. split; [exact J1|].
        intros _. split; [apply J3; reflexivity|apply J2; reflexivity].
    + rewrite snext_op_idle in H. destruct (Hcur eq_refl) as [Qin ->].
      destruct (snext f env rest oslot s) as [| | |[[[[rr rest'] os1] s1] e1]] eqn:E; try discriminate.
      destruct (IHs _ _ _ _ _ _ _ _ _ Hrest E) as [J1 J2].
      destruct rr as [[stk suffix]|].
      * destruct (snext f env (POp inner (Some stk) (Some suffix) :: rest') os1 s1) as [| | |[[[[r2 parts2] os2] s2] e2]] eqn:E2; try discriminate.
        inversion H; subst. eapply IHs; [|exact E2]. constructor; [|exact J1]. cbn [pinv]. split; [apply quiet_inv; exact Qin|discriminate].
      * inversion H; subst. destruct (J2 eq_refl) as [K1 K2]. split.
        -- constructor; [|exact J1]. cbn [pinv]. split; [apply quiet_inv; exact Qin|auto].
        -- intros _. split; [|exact K2]. constructor; [|exact K1]. cbn [pquiet]. auto.
Qed.

Lemma case_format f : Main f -> MainS f -> forall env up parts oslot pos c s r m' c' s' e,
  inv (MFormat up parts oslot pos) -> cinv c -> nodone c ->
  next (S f) env (MFormat up parts oslot pos) c s = Ret (r, m', c', s', e) -> Concl c r m' c'.
Proof.
  intros IHf IHs env up parts oslot pos c s r m' c' s' e Hm Hc Hn H. apply inv_format in Hm. destruct Hm as [Hup Hp].
  rewrite next_format in H.
  destruct (snext f env parts oslot s) as [| | |[[[[rr parts1] os1] s1] e1]] eqn:E; try discriminate.
  destruct (IHs _ _ _ _ _ _ _ _ _ Hp E) as [J1 J2].
  destruct rr as [[stk str]|].
  - inversion H; subst. concl.
    + apply inv_format. split; auto.
    + exact Hc.
    + apply shape_refl.
    + apply nodone_cpost_false. exact Hn.
    + discriminate.
  - destruct (J2 eq_refl) as [K1 ->].
    pull H Eu. destruct (IHf _ _ _ _ _ _ _ _ _ Hup Hc Hn Eu) as [I1 [I2 [I3 [I4 I5]]]].
    destruct ru as [stk|].
    + apply add_errs_ret in H. destruct H as [e2 H]. cbn [isnone] in I4.
      eapply chain_concl; [exact I3|]. eapply (IHf _ (MFormat up' parts1 (Some stk) 0%N) cu); eauto.
      * apply inv_format. split; auto.
      * apply cpost_false_nodone. exact I4.
    + inversion H; subst. assert (quiet up') as Q by (apply I5; reflexivity). concl; auto.
      * apply inv_format. split; auto.
      * intros _. apply quiet_format. repeat split; auto.
Qed.

Lemma main_step f : Main f -> MainS f -> Main (S f).
Proof.
  intros IHf IHs env m c s r m' c' s' e Hm Hc Hn H.
  destruct m.
  - eapply case_leaf; eauto.
  - rewrite next_nop in H. refine (case_unary f MNop _ IHf _ _ env m c s r m' c' s' e Hm Hc Hn H); intros; cbn [inv quiet]; reflexivity.
  - rewrite next_const in H. refine (case_unary f (fun u => MConst u v) _ IHf _ _ env m c s r m' c' s' e Hm Hc Hn H); intros; cbn [inv quiet]; reflexivity.
  - exact (case_assert f IHf env m p c s r m' c' s' e Hm Hc Hn H).
  - exact (case_format f IHf IHs env m parts oslot pos c s r m' c' s' e Hm Hc Hn H).
  - exact (case_merge f IHf env m brs file idx done c s r m' c' s' e Hm Hc Hn H).
  - exact (case_or f IHf env m brs cur c s r m' c' s' e Hm Hc Hn H).
  - destruct Hm as [H1 H2]. exact (case_capture f IHf env m1 m2 c s r m' c' s' e H1 H2 Hc Hn H).
  - exact (case_closure f IHf env m1 m2 plus slot seen stks drained c s r m' c' s' e Hm Hc Hn H).
  - exact (case_subx f IHf env m1 m2 keep saved slot c s r m' c' s' e Hm Hc Hn H).
  - rewrite next_bind in H. refine (case_unary f (fun u => MBind u id) _ IHf _ _ env m c s r m' c' s' e Hm Hc Hn H); intros; cbn [inv quiet]; reflexivity.
  - rewrite next_read in H. refine (case_unary f (fun u => MRead u id) _ IHf _ _ env m c s r m' c' s' e Hm Hc Hn H); intros; cbn [inv quiet]; reflexivity.
  - rewrite next_upread in H. refine (case_unary f (fun u => MUpread u id) _ IHf _ _ env m c s r m' c' s' e Hm Hc Hn H); intros; cbn [inv quiet]; reflexivity.
  - rewrite next_lexclosure in H. refine (case_unary f (fun u => MLexClosure u blk n) _ IHf _ _ env m c s r m' c' s' e Hm Hc Hn H); intros; cbn [inv quiet]; reflexivity.
  - exact (case_ifelse f IHf env m1 m2 m3 m4 active c s r m' c' s' e Hm Hc Hn H).
  - exact (case_word f IHf env m w pending c s r m' c' s' e Hm Hc Hn H).
  - exact (case_apply f IHf env m skip sub c s r m' c' s' e Hm Hc Hn H).
  - rewrite next_debug in H. refine (case_unary f MDebug _ IHf _ _ env m c s r m' c' s' e Hm Hc Hn H); intros; cbn [inv quiet]; reflexivity.
Qed.

Theorem main_both : forall f, Main f /\ MainS f.
Proof.
  induction f as [|f [A B]].
  - split; [intros env m c s r m' c' s' e _ _ _ H|intros env parts oslot s r parts' oslot' s' e _ H]; discriminate.
  - split; [apply main_step|apply case_snext]; assumption.
Qed.

Theorem main : forall f, Main f.
Proof. intros f. apply main_both. Qed.

(* ---- the constructed state of a chain, as a function ---- *)
Fixpoint reset (m : mach) : mach :=
  match m with
  | MLeaf => MLeaf
  | MNop up => MNop (reset up)
  | MDebug up => MDebug (reset up)
  | MConst up v => MConst (reset up) v
  | MBind up id => MBind (reset up) id
  | MRead up id => MRead (reset up) id
  | MUpread up id => MUpread (reset up) id
  | MLexClosure up blk n => MLexClosure (reset up) blk n
  | MAssert up p => MAssert (reset up) p
  | MMerge up brs file _ _ => MMerge (reset up) (map reset brs) (map (fun _ => None) file) O false
  | MOr up brs _ => MOr (reset up) (map (fun b => (reset (fst b), None)) brs) None
  | MCapture up inner => MCapture (reset up) inner
  | MSubx up inner keep _ _ => MSubx (reset up) (reset inner) keep None None
  | MIfElse up cnd thn els _ => MIfElse (reset up) cnd thn els None
  | MWord up w _ => MWord (reset up) w []
  | MClosure up inner plus _ _ _ _ => MClosure (reset up) (reset inner) plus None [] [] true
  | MApply up skip _ => MApply (reset up) skip None
  | MFormat up parts _ _ =>
    MFormat (reset up)
            (map (fun p => match p with PLit str => PLit str | POp inner _ _ => POp (reset inner) None None end) parts)
            None 0%N
  end.

Definition preset (p : part) : part :=
  match p with PLit str => PLit str | POp inner _ _ => POp (reset inner) None None end.

Lemma reset_format up parts oslot pos :
  reset (MFormat up parts oslot pos) = MFormat (reset up) (map preset parts) None 0%N.
Proof. reflexivity. Qed.

Lemma all_none_map_none (file : list (option stack)) : all_none file = true -> map (fun _ => None) file = file.
Proof.
  unfold all_none. induction file as [|[x|] t IH]; cbn; intros H; [reflexivity|discriminate|]. f_equal. apply IH. exact H.
Qed.

(* chains without the op of format strings *)
Lemma hf_merge_in : forall brs,
  (fix any (l : list mach) : bool := match l with [] => false | x :: t => has_format x || any t end) brs = false ->
  forall x, In x brs -> has_format x = false.
Proof.
  induction brs as [|y t IHt]; intros H x Hx; [contradiction|]. apply orb_false_elim in H. destruct H as [H1 H2].
  destruct Hx as [->|Hx]; [exact H1|apply IHt; assumption].
Qed.

Lemma hf_or_in : forall brs,
  (fix any (l : list (mach * option stack)) : bool := match l with [] => false | (x, _) :: t => has_format x || any t end) brs = false ->
  forall x sl, In (x, sl) brs -> has_format x = false.
Proof.
  induction brs as [|[y sy] t IHt]; intros H x sl Hx; [contradiction|]. apply orb_false_elim in H. destruct H as [H1 H2].
  destruct Hx as [E|Hx]; [inversion E; subst; exact H1|eapply IHt; eassumption].
Qed.

(* a pristine chain without format ops is its own reset (with them: up to their position counters) *)
Lemma quiet_reset_n : forall n m, msize m <= n -> quiet m -> has_format m = false -> reset m = m.
Proof.
  induction n as [|n IH]; intros m Hs; [destruct m; cbn in Hs; lia|].
  destruct m; try (cbn [has_format]; intros; discriminate); try reflexivity;
    try (cbn [quiet reset msize has_format] in *; intros H F; f_equal; apply IH; [lia|exact H|exact F]; fail).
  - (* MMerge *) intros H F. apply quiet_merge in H. destruct H as [Hu [Hb [Hf [-> [-> [Hl Hn]]]]]].
    cbn [has_format] in F. apply orb_false_elim in F. destruct F as [F1 F2].
    cbn [msize reset] in *. f_equal; [apply IH; [lia|exact Hu|exact F1]| |apply all_none_map_none; exact Hf].
    unfold all_quiet in Hb. rewrite Forall_forall in Hb.
    assert (forall x, In x brs -> reset x = x) as E.
    { intros x Hx. apply IH; [pose proof (msize_in_merge x brs Hx); lia|apply Hb; exact Hx|eapply hf_merge_in; eauto]. }
    clear - E. induction brs as [|x t IHt]; [reflexivity|]. cbn [map]. f_equal; [apply E; left; reflexivity|apply IHt; intros y Hy; apply E; right; exact Hy].
  - (* MOr *) intros H F. apply quiet_or in H. destruct H as [Hu [Hb ->]].
    cbn [has_format] in F. apply orb_false_elim in F. destruct F as [F1 F2].
    cbn [msize reset] in *. f_equal; [apply IH; [lia|exact Hu|exact F1]|].
    unfold all_quiet_or in Hb. rewrite Forall_forall in Hb.
    assert (forall x, In x brs -> (reset (fst x), None) = x) as E.
    { intros [x sl] Hx. destruct (Hb _ Hx) as [Q1 Q2]. cbn [fst snd] in *. subst sl. f_equal. apply IH; [|exact Q1|eapply hf_or_in; eauto].
      pose proof (msize_in_or x None brs Hx). lia. }
    clear - E. induction brs as [|x t IHt]; [reflexivity|]. cbn [map]. f_equal; [apply E; left; reflexivity|apply IHt; intros y Hy; apply E; right; exact Hy].
  - (* MCapture *) cbn [quiet reset msize has_format] in *. intros [H1 H2] F. apply orb_false_elim in F. destruct F as [F1 F2]. f_equal. apply IH; [lia|exact H1|exact F1].
  - (* MClosure *) cbn [quiet reset msize has_format] in *. intros [H1 [H2 [-> [-> [-> ->]]]]] F. apply orb_false_elim in F. destruct F as [F1 F2]. f_equal; apply IH; try lia; assumption.
  - (* MSubx *) cbn [quiet reset msize has_format] in *. intros [H1 [H2 [-> ->]]] F. apply orb_false_elim in F. destruct F as [F1 F2]. f_equal; apply IH; try lia; assumption.
  - (* MIfElse *) cbn [quiet reset msize has_format] in *. intros [H1 [H2 [H3 [H4 ->]]]] F.
    apply orb_false_elim in F. destruct F as [F F4]. apply orb_false_elim in F. destruct F as [F F3]. apply orb_false_elim in F. destruct F as [F1 F2].
    f_equal. apply IH; [lia|exact H1|exact F1].
  - (* MWord *) cbn [quiet reset msize has_format] in *. intros [H1 ->] F. f_equal. apply IH; [lia|exact H1|exact F].
  - (* MApply *) cbn [quiet reset msize has_format] in *. intros [H1 ->] F. f_equal. apply IH; [lia|exact H1|exact F].
Qed.

Lemma quiet_reset m : quiet m -> has_format m = false -> reset m = m.
Proof. apply (quiet_reset_n (msize m)). lia. Qed.

(* resetting keeps the ops: in particular whether there is a format op *)
Lemma hf_reset_n : forall n m, msize m <= n -> has_format (reset m) = has_format m.
Proof.
  induction n as [|n IH]; intros m Hs; [destruct m; cbn in Hs; lia|].
  destruct m; try reflexivity; cbn [reset has_format msize] in *;
    try (apply IH; lia; fail).
  - (* MMerge *) rewrite IH by lia. f_equal.
    assert (forall x, In x brs -> has_format (reset x) = has_format x) as E.
    { intros x Hx. apply IH. pose proof (msize_in_merge x brs Hx). lia. }
    clear - E. induction brs as [|x t IHt]; [reflexivity|]. cbn [map]. rewrite E by (left; reflexivity). f_equal.
    apply IHt. intros y Hy. apply E. right. exact Hy.
  - (* MOr *) rewrite IH by lia. f_equal.
    assert (forall x sl, In (x, sl) brs -> has_format (reset x) = has_format x) as E.
    { intros x sl Hx. apply IH. pose proof (msize_in_or x sl brs Hx). lia. }
    clear - E. induction brs as [|[x sl] t IHt]; [reflexivity|]. cbn [map fst]. rewrite (E x sl) by (left; reflexivity). f_equal.
    apply IHt. intros y sy Hy. apply (E y sy). right. exact Hy.
  - (* MCapture *) rewrite IH by lia. reflexivity.
  - (* MClosure *) rewrite !IH by lia. reflexivity.
  - (* MSubx *) rewrite !IH by lia. reflexivity.
  - (* MIfElse *) rewrite IH by lia. reflexivity.
Qed.

Lemma hf_reset m : has_format (reset m) = has_format m.
Proof. apply (hf_reset_n (msize m)). lia. Qed.

(* ---- a pull changes state only: the constructed chain underneath stays the same ---- *)
Fixpoint csame (c c' : lctx) : Prop :=
  match c, c' with
  | LOrigin _, LOrigin _ => True
  | LTine _ f _ up uc, LTine _ f' _ up' uc' => reset up' = reset up /\ length f' = length f /\ csame uc uc'
  | _, _ => False
  end.
Lemma csame_refl c : csame c c.
Proof. induction c as [sl|i f d up uc IH]; cbn; auto. Qed.
Lemma csame_trans : forall a b c, csame a b -> csame b c -> csame a c.
Proof.
  induction a as [sl|i f d up uc IH]; intros [sl'|i' f' d' up' uc'] [sl''|i'' f'' d'' up'' uc'']; cbn; try tauto.
  intros [E1 [L1 S1]] [E2 [L2 S2]]. split; [congruence|]. split; [congruence|]. eapply IH; eauto.
Qed.

Definition MainR (f : nat) : Prop :=
  forall env m c s r m' c' s' e, inv m -> cinv c -> nodone c ->
    next f env m c s = Ret (r, m', c', s', e) -> reset m' = reset m /\ csame c c'.

Lemma map_set_nth {A B} (g : A -> B) (x : A) : forall l i, map g (set_nth i x l) = set_nth i (g x) (map g l).
Proof. induction l as [|h t IH]; intros [|i]; cbn; auto. f_equal. apply IH. Qed.
Lemma set_nth_same {A} : forall (l : list A) i x, nth_error l i = Some x -> set_nth i x l = l.
Proof. induction l as [|h t IH]; intros [|i] x H; cbn in *; try discriminate; [inversion H; reflexivity|f_equal; apply IH; exact H]. Qed.
Lemma map_const_length {A B} (b : B) (l l' : list A) : length l = length l' -> map (fun _ => b) l = map (fun _ => b) l'.
Proof. revert l'. induction l as [|h t IH]; intros [|h' t'] H; cbn in *; try discriminate; auto. f_equal. apply IH. lia. Qed.

Lemma or_try_reset f : Main f -> MainR f -> forall post pre i env stk s errs r brs' s' e',
  all_quiet_or post ->
  or_try (next f) env pre post i stk s errs = Ret (r, brs', s', e') ->
  map (fun b => (reset (fst b), @None stack)) brs' = map (fun b => (reset (fst b), None)) (pre ++ post).
Proof.
  intros IHm IHr. induction post as [|[br sl0] post' IH]; intros pre i env stk s errs r brs' s' e' Qpost H; cbn [or_try] in H.
  - inversion H; subst. rewrite app_nil_r. reflexivity.
  - inversion Qpost as [|? ? [Qbr Qsl] Qpost']; subst. cbn [fst snd] in *.
    destruct (next f env br (LOrigin (Some stk)) s) as [| | |[[[[rb br'] cb] sb] eb]] eqn:Eb; try discriminate.
    assert (cinv (LOrigin (Some stk))) as C1 by exact I. assert (nodone (LOrigin (Some stk))) as C2 by exact I.
    destruct (IHr _ _ _ _ _ _ _ _ _ (quiet_inv _ Qbr) C1 C2 Eb) as [R1 R2].
    destruct cb as [sl'|]; [|cbn in R2; contradiction].
    destruct rb as [rs|].
    + inversion H; subst. rewrite !map_app. cbn [map fst]. rewrite R1. reflexivity.
    + rewrite (IH _ _ _ _ _ _ _ _ _ _ Qpost' H). rewrite <- app_assoc. rewrite !map_app. cbn [map fst app]. rewrite R1. reflexivity.
Qed.

Ltac pull2 H Eu IHr Hup Hc Hn :=
  pull H Eu;
  let I1 := fresh "I1" in let I2 := fresh "I2" in let I3 := fresh "I3" in let I4 := fresh "I4" in let I5 := fresh "I5" in
  let R1 := fresh "R1" in let R2 := fresh "R2" in
  destruct (main _ _ _ _ _ _ _ _ _ _ Hup Hc Hn Eu) as [I1 [I2 [I3 [I4 I5]]]];
  destruct (IHr _ _ _ _ _ _ _ _ _ Hup Hc Hn Eu) as [R1 R2].

Lemma unary_reset f (wrap : mach -> mach) g : MainR f ->
  (forall up, inv (wrap up) <-> inv up) -> (forall a b, reset a = reset b -> reset (wrap a) = reset (wrap b)) ->
  forall env up c s r m' c' s' e, inv up -> cinv c -> nodone c ->
  unary_form wrap g (next f env up c s) = Ret (r, m', c', s', e) -> reset m' = reset (wrap up) /\ csame c c'.
Proof.
  intros IHr Wi Wr env up c s r m' c' s' e Hup Hc Hn H. unfold unary_form in H.
  pull H Eu. destruct (IHr _ _ _ _ _ _ _ _ _ Hup Hc Hn Eu) as [R1 R2].
  destruct ru as [stk|].
  - destruct (g stk su) as [| | |[stk' s2]]; try discriminate. inversion H; subst. split; [apply Wr; exact R1|exact R2].
  - inversion H; subst. split; [apply Wr; exact R1|exact R2].
Qed.

Definition MainRS (f : nat) : Prop :=
  forall env parts oslot s r parts' oslot' s' e, Forall pinv parts ->
    snext f env parts oslot s = Ret (r, parts', oslot', s', e) -> map preset parts' = map preset parts.

Lemma caseR_snext f : MainR f -> MainRS f -> MainRS (S f).
Proof.
  intros IHr IHrs env parts oslot s r parts' oslot' s' e Hp H.
  destruct (main_both f) as [MN MS].
  destruct parts as [|[str|inner slot cur] rest].
  - rewrite snext_nil in H. destruct oslot; inversion H; reflexivity.
  - rewrite snext_lit in H. inversion Hp as [|? ? _ Hrest]; subst.
    destruct (snext f env rest oslot s) as [| | |[[[[rr rest'] os1] s1] e1]] eqn:E; try discriminate.
    pose proof (IHrs _ _ _ _ _ _ _ _ _ Hrest E) as R.
    destruct rr as [[stk suffix]|]; inversion H; subst; cbn [map preset]; f_equal; exact R.
  - inversion Hp as [|? ? Hop Hrest]; subst. cbn [pinv] in Hop. destruct Hop as [Hin Hcur].
    destruct cur as [suffix|].
    + rewrite snext_op_busy in H.
      destruct (next f env inner (LOrigin slot) s) as [| | |[[[[ri inner'] ci] si] ei]] eqn:Ei; try discriminate.
      destruct (sub_pull f MN _ _ _ _ _ _ _ _ _ Hin Ei) as [J1 [[sl' [-> J2]] J3]].
      assert (cinv (LOrigin slot)) as C1 by exact I. assert (nodone (LOrigin slot)) as C2 by exact I.
      destruct (IHr _ _ _ _ _ _ _ _ _ Hin C1 C2 Ei) as [R1 _].
      destruct ri as [[|v stk]|]; try discriminate.
      * inversion H; subst. cbn [map preset]. rewrite R1. reflexivity.
      * destruct (snext f env (POp inner' sl' None :: rest) oslot si) as [| | |[[[[r2 parts2] os2] s2] e2]] eqn:E2; try discriminate.
        inversion H; subst.
        assert (Forall pinv (POp inner' sl' None :: rest)) as HP.
        { constructor; [|exact Hrest]. cbn [pinv]. split; [exact J1|]. intros _. split; [apply J3; reflexivity|apply J2; reflexivity]. }
        rewrite (IHrs _ _ _ _ _ _ _ _ _ HP E2). cbn [map preset]. rewrite R1. reflexivity.
    + rewrite snext_op_idle in H. destruct (Hcur eq_refl) as [Qin ->].
      destruct (snext f env rest oslot s) as [| | |[[[[rr rest'] os1] s1] e1]] eqn:E; try discriminate.
      destruct (MS _ _ _ _ _ _ _ _ _ Hrest E) as [J1 J2].
      pose proof (IHrs _ _ _ _ _ _ _ _ _ Hrest E) as R.
      destruct rr as [[stk suffix]|].
      * destruct (snext f env (POp inner (Some stk) (Some suffix) :: rest') os1 s1) as [| | |[[[[r2 parts2] os2] s2] e2]] eqn:E2; try discriminate.
        inversion H; subst.
        assert (Forall pinv (POp inner (Some stk) (Some suffix) :: rest')) as HP.
        { constructor; [|exact J1]. cbn [pinv]. split; [apply quiet_inv; exact Qin|discriminate]. }
        rewrite (IHrs _ _ _ _ _ _ _ _ _ HP E2). cbn [map preset]. rewrite R. reflexivity.
      * inversion H; subst. cbn [map preset]. rewrite R. reflexivity.
Qed.

Lemma mainR_step f : MainR f -> MainRS f -> MainR (S f).
Proof.
  intros IHr IHrs env m c s r m' c' s' e Hm Hc Hn H.
  destruct m.
  - (* leaf *)
    destruct c as [sl|i file done up uc].
    + rewrite next_leaf_origin in H. inversion H; subst. cbn. auto.
    + cbn [cinv nodone] in Hc, Hn. destruct Hc as [Hi [Hup Huc]]. destruct Hn as [-> Hnd].
      rewrite next_leaf_tine in H. cbn iota in H. destruct (all_none file) eqn:AN.
      * pull H Eu. destruct (IHr _ _ _ _ _ _ _ _ _ Hup Huc Hnd Eu) as [R1 R2].
        destruct ru as [stk|]; cbn zeta in H; inversion H; subst; cbn [csame]; rewrite ?set_nth_length, ?map_length; auto.
      * inversion H; subst. cbn [csame]. rewrite set_nth_length. split; [reflexivity|]. split; [reflexivity|]. split; [reflexivity|apply csame_refl].
  - rewrite next_nop in H. refine (unary_reset f MNop _ IHr _ _ env m c s r m' c' s' e Hm Hc Hn H); intros; cbn [inv reset]; [reflexivity|congruence].
  - rewrite next_const in H. refine (unary_reset f (fun u => MConst u v) _ IHr _ _ env m c s r m' c' s' e Hm Hc Hn H); intros; cbn [inv reset]; [reflexivity|congruence].
  - (* assert *)
    cbn [inv] in Hm. cbn [next] in H. pull2 H Eu IHr Hm Hc Hn.
    destruct ru as [stk|].
    + destruct (peval P (next f) env p stk su) as [| | |[[pr s2] e2]]; try discriminate. cbn [isnone] in I4.
      assert (forall X, add_errs (eu ++ e2) (next f env (MAssert up' p) cu s2) = Ret X ->
                        reset (snd (fst (fst (fst X)))) = reset (MAssert m p) /\ csame c (snd (fst (fst X)))) as REC.
      { intros [[[[r0 m0] c0] s0] e0] HX. apply add_errs_ret in HX. destruct HX as [e1 HX]. cbn [fst snd].
        destruct (IHr _ (MAssert up' p) cu _ _ _ _ _ _ I1 I2 (cpost_false_nodone _ I4) HX) as [Q1 Q2].
        split; [rewrite Q1; cbn [reset]; congruence|eapply csame_trans; eauto]. }
      destruct pr; try (exact (REC _ H)). inversion H; subst. cbn [reset]. split; [congruence|exact R2].
    + inversion H; subst. cbn [reset]. split; [congruence|exact R2].
  - (* format *)
    apply inv_format in Hm. destruct Hm as [Hup Hp]. rewrite next_format in H.
    destruct (snext f env parts oslot s) as [| | |[[[[rr parts1] os1] s1] e1]] eqn:E; try discriminate.
    destruct (main_both f) as [_ MS]. destruct (MS _ _ _ _ _ _ _ _ _ Hp E) as [J1 J2].
    pose proof (IHrs _ _ _ _ _ _ _ _ _ Hp E) as RP.
    destruct rr as [[stk str]|].
    + inversion H; subst. rewrite !reset_format. split; [congruence|apply csame_refl].
    + destruct (J2 eq_refl) as [K1 ->]. pull2 H Eu IHr Hup Hc Hn.
      destruct ru as [stk|].
      * apply add_errs_ret in H. destruct H as [e2 H]. cbn [isnone] in I4.
        assert (inv (MFormat up' parts1 (Some stk) 0%N)) as HI by (apply inv_format; split; auto).
        destruct (IHr _ (MFormat up' parts1 (Some stk) 0%N) cu _ _ _ _ _ _ HI I2 (cpost_false_nodone _ I4) H) as [Q1 Q2].
        split; [rewrite Q1, !reset_format; congruence|eapply csame_trans; eauto].
      * inversion H; subst. rewrite !reset_format. split; [congruence|exact R2].
  - (* merge *)
    cbn [next] in H. apply inv_merge in Hm. destruct Hm as [Hup [-> [Hidx [Hlen Hb]]]]. cbn iota in H.
    destruct (nth_error brs idx) as [br|] eqn:Ni; [|discriminate].
    pose proof (Hb idx br Ni) as Hbr. rewrite Nat.eqb_refl in Hbr.
    assert (cinv (LTine idx file false m c)) as C1 by (cbn [cinv]; repeat split; auto; lia).
    assert (nodone (LTine idx file false m c)) as C2 by (cbn [nodone]; auto).
    destruct (next f env br (LTine idx file false m c) s) as [| | |[[[[rb br'] cb] sb] eb]] eqn:Eb; try discriminate.
    destruct (main _ _ _ _ _ _ _ _ _ _ Hbr C1 C2 Eb) as [I1 [I2 [I3 [I4 I5]]]].
    destruct (IHr _ _ _ _ _ _ _ _ _ Hbr C1 C2 Eb) as [R1 R2].
    destruct cb as [slb|i' file' done' up' cu]; [cbn in I3; contradiction|].
    cbn [shape] in I3. destruct I3 as [-> [Lf Sh]]. cbn [cinv] in I2. destruct I2 as [Hi' [Hup' Hcu]].
    cbn [csame] in R2. destruct R2 as [Ru [Lf' Rc]]. cbn zeta in H.
    assert (map reset (set_nth idx br' brs) = map reset brs) as Eb'.
    { rewrite map_set_nth, R1. apply set_nth_same. rewrite nth_error_map, Ni. reflexivity. }
    assert (reset (MMerge up' (set_nth idx br' brs) file' 0 false) = reset (MMerge m brs file idx false)) as Em.
    { cbn [reset]. rewrite Eb', Ru. f_equal. apply map_const_length. exact Lf. }
    destruct rb as [stk|].
    + inversion H; subst. split; [|exact Rc]. cbn [reset]. cbn [reset] in Em. exact Em.
    + destruct done'.
      * inversion H; subst. split; [exact Em|exact Rc].
      * apply add_errs_ret in H. destruct H as [e1 H]. cbn [isnone cpost] in I4.
        assert (quiet br') as Qbr by (apply I5; reflexivity).
        assert (inv (MMerge up' (set_nth idx br' brs) file' (if Nat.eqb (S idx) (length brs) then 0 else S idx) false)) as Inew.
        { apply inv_merge. split; [exact Hup'|]. split; [reflexivity|]. rewrite set_nth_length.
          split; [destruct (Nat.eqb_spec (S idx) (length brs)); lia|]. split; [congruence|].
          intros j b Hj.
          assert (quiet b) as Qb.
          { destruct (Nat.eqb_spec j idx) as [->|NE].
            - rewrite nth_error_set_nth_eq in Hj by exact Hidx. inversion Hj; subst. exact Qbr.
            - rewrite nth_error_set_nth_neq in Hj by congruence. pose proof (Hb j b Hj) as Q. destruct (Nat.eqb_spec j idx); [congruence|exact Q]. }
          destruct (Nat.eqb j (if Nat.eqb (S idx) (length brs) then 0 else S idx)); [apply quiet_inv; exact Qb|exact Qb]. }
        destruct (IHr _ _ cu _ _ _ _ _ _ Inew Hcu I4 H) as [Q1 Q2].
        split; [rewrite Q1; exact Em|eapply csame_trans; eauto].
  - (* or *)
    cbn [next] in H. destruct cur as [i|].
    + apply inv_or_some in Hm. destruct Hm as [Hup [Hi Hb]].
      destruct (nth_error brs i) as [[br sl]|] eqn:Ni; [|discriminate].
      pose proof (Hb i br sl Ni) as Hbr. rewrite Nat.eqb_refl in Hbr.
      destruct (next f env br (LOrigin sl) s) as [| | |[[[[rb br'] cb] sb] eb]] eqn:Eb; try discriminate.
      destruct (sub_pull f (main f) _ _ _ _ _ _ _ _ _ Hbr Eb) as [J1 [[sl' [-> J2]] J3]].
      assert (cinv (LOrigin sl)) as C1 by exact I. assert (nodone (LOrigin sl)) as C2 by exact I.
      destruct (IHr _ _ _ _ _ _ _ _ _ Hbr C1 C2 Eb) as [R1 _].
      assert (map (fun b => (reset (fst b), @None stack)) (set_nth i (br', sl') brs) = map (fun b => (reset (fst b), None)) brs) as Eb'.
      { rewrite map_set_nth. cbn [fst]. rewrite R1. apply set_nth_same. rewrite nth_error_map, Ni. reflexivity. }
      destruct rb as [rs|].
      * inversion H; subst. cbn [reset]. rewrite Eb'. split; [reflexivity|apply csame_refl].
      * apply add_errs_ret in H. destruct H as [e1 H].
        assert (inv (MOr m (set_nth i (br', sl') brs) None)) as Inew.
        { apply inv_or_none. split; [exact Hup|]. apply all_quiet_or_nth. intros j b sl0 Hj.
          destruct (Nat.eqb_spec j i) as [->|NE].
          - rewrite nth_error_set_nth_eq in Hj by exact Hi. inversion Hj; subst. split; [apply J3; reflexivity|apply J2; reflexivity].
          - rewrite nth_error_set_nth_neq in Hj by congruence. pose proof (Hb j b sl0 Hj) as Q. destruct (Nat.eqb_spec j i); [congruence|exact Q]. }
        destruct (IHr _ _ c _ _ _ _ _ _ Inew Hc Hn H) as [Q1 Q2]. split; [rewrite Q1; cbn [reset]; rewrite Eb'; reflexivity|exact Q2].
    + apply inv_or_none in Hm. destruct Hm as [Hup Hb].
      pull2 H Eu IHr Hup Hc Hn. destruct ru as [stk|].
      * cbn [isnone] in I4.
        destruct (or_try (next f) env [] brs 0 stk su eu) as [| | |[[[ro brs'] so] eo]] eqn:Eo; try discriminate.
        pose proof (or_try_spec f (main f) brs [] 0 env stk su eu ro brs' so eo (Forall_nil _) Hb eq_refl Eo) as SP.
        pose proof (or_try_reset f (main f) IHr brs [] 0 env stk su eu ro brs' so eo Hb Eo) as RS. cbn [app] in RS.
        destruct ro as [[rs k]|].
        -- inversion H; subst. cbn [reset]. rewrite RS, R1. split; [reflexivity|exact R2].
        -- apply add_errs_ret in H. destruct H as [e1 H].
           assert (inv (MOr up' brs' None)) as Inew by (apply inv_or_none; split; auto).
           destruct (IHr _ _ cu _ _ _ _ _ _ Inew I2 (cpost_false_nodone _ I4) H) as [Q1 Q2].
           split; [rewrite Q1; cbn [reset]; rewrite RS, R1; reflexivity|eapply csame_trans; eauto].
      * inversion H; subst. cbn [reset]. rewrite R1. split; [reflexivity|exact R2].
  - (* capture *)
    destruct Hm as [Hup Hq]. cbn [next] in H. pull2 H Eu IHr Hup Hc Hn. destruct ru as [stk|].
    + destruct (drain (next f) f env m2 (LOrigin (Some stk)) su [] eu) as [| | |[[vs s2] e2]]; try discriminate.
      inversion H; subst. cbn [reset]. rewrite R1. split; [reflexivity|exact R2].
    + inversion H; subst. cbn [reset]. rewrite R1. split; [reflexivity|exact R2].
  - (* closure *)
    destruct Hm as [Hup [Hin Hdr]]. cbn [next] in H. destruct drained; cbn [negb] in H; cbn iota in H.
    + destruct (Hdr eq_refl) as [Qin ->]. destruct stks as [|stk rest].
      * pull2 H Eu IHr Hup Hc Hn. destruct ru as [stk|].
        -- cbn [isnone] in I4. destruct plus.
           ++ apply add_errs_ret in H. destruct H as [e1 H].
              assert (inv (MClosure up' m2 true (Some stk) [] [] false)) as Inew by (cbn [inv]; repeat split; auto; try (apply quiet_inv; exact Qin); try congruence).
              destruct (IHr _ _ cu _ _ _ _ _ _ Inew I2 (cpost_false_nodone _ I4) H) as [Q1 Q2].
              split; [rewrite Q1; cbn [reset]; rewrite R1; reflexivity|eapply csame_trans; eauto].
           ++ inversion H; subst. cbn [reset]. rewrite R1. split; [reflexivity|exact R2].
        -- inversion H; subst. cbn [reset]. rewrite R1. split; [reflexivity|exact R2].
      * assert (inv (MClosure m1 m2 plus (Some stk) seen rest false)) as Inew by (cbn [inv]; repeat split; auto; try (apply quiet_inv; exact Qin); try congruence).
        destruct (IHr _ _ c _ _ _ _ _ _ Inew Hc Hn H) as [Q1 Q2]. split; [rewrite Q1; reflexivity|exact Q2].
    + destruct (next f env m2 (LOrigin slot) s) as [| | |[[[[ri inner'] ci] si] ei]] eqn:Ei; try discriminate.
      destruct (sub_pull f (main f) _ _ _ _ _ _ _ _ _ Hin Ei) as [J1 [[sl' [-> J2]] J3]].
      assert (cinv (LOrigin slot)) as C1 by exact I. assert (nodone (LOrigin slot)) as C2 by exact I.
      destruct (IHr _ _ _ _ _ _ _ _ _ Hin C1 C2 Ei) as [R1 _].
      destruct ri as [rs|].
      * destruct (seen_mem rs seen).
        -- apply add_errs_ret in H. destruct H as [e1 H].
           assert (inv (MClosure m1 inner' plus sl' seen stks false)) as Inew by (cbn [inv]; repeat split; auto; congruence).
           destruct (IHr _ _ c _ _ _ _ _ _ Inew Hc Hn H) as [Q1 Q2]. split; [rewrite Q1; cbn [reset]; rewrite R1; reflexivity|exact Q2].
        -- inversion H; subst. cbn [reset]. rewrite R1. split; [reflexivity|apply csame_refl].
      * apply add_errs_ret in H. destruct H as [e1 H].
        assert (inv (MClosure m1 inner' plus sl' seen stks true)) as Inew by (cbn [inv]; repeat split; auto).
        destruct (IHr _ _ c _ _ _ _ _ _ Inew Hc Hn H) as [Q1 Q2]. split; [rewrite Q1; cbn [reset]; rewrite R1; reflexivity|exact Q2].
  - (* subx *)
    destruct Hm as [Hup [Hin Hsv]]. cbn [next] in H. destruct saved as [sv|].
    + destruct (next f env m2 (LOrigin slot) s) as [| | |[[[[ri inner'] ci] si] ei]] eqn:Ei; try discriminate.
      destruct (sub_pull f (main f) _ _ _ _ _ _ _ _ _ Hin Ei) as [J1 [[sl' [-> J2]] J3]].
      assert (cinv (LOrigin slot)) as C1 by exact I. assert (nodone (LOrigin slot)) as C2 by exact I.
      destruct (IHr _ _ _ _ _ _ _ _ _ Hin C1 C2 Ei) as [R1 _].
      destruct ri as [rs|].
      * destruct (subx_result keep rs sv); [|discriminate]. inversion H; subst. cbn [reset]. rewrite R1. split; [reflexivity|apply csame_refl].
      * apply add_errs_ret in H. destruct H as [e1 H].
        assert (inv (MSubx m1 inner' keep None sl')) as Inew by (cbn [inv]; repeat split; auto).
        destruct (IHr _ _ c _ _ _ _ _ _ Inew Hc Hn H) as [Q1 Q2]. split; [rewrite Q1; cbn [reset]; rewrite R1; reflexivity|exact Q2].
    + destruct (Hsv eq_refl) as [Qin ->]. pull2 H Eu IHr Hup Hc Hn. destruct ru as [stk|].
      * apply add_errs_ret in H. destruct H as [e1 H]. cbn [isnone] in I4.
        assert (inv (MSubx up' m2 keep (Some stk) (Some stk))) as Inew by (cbn [inv]; repeat split; auto; congruence).
        destruct (IHr _ _ cu _ _ _ _ _ _ Inew I2 (cpost_false_nodone _ I4) H) as [Q1 Q2].
        split; [rewrite Q1; cbn [reset]; rewrite R1; reflexivity|eapply csame_trans; eauto].
      * inversion H; subst. cbn [reset]. rewrite R1. split; [reflexivity|exact R2].
  - rewrite next_bind in H. refine (unary_reset f (fun u => MBind u id) _ IHr _ _ env m c s r m' c' s' e Hm Hc Hn H); intros; cbn [inv reset]; [reflexivity|congruence].
  - rewrite next_read in H. refine (unary_reset f (fun u => MRead u id) _ IHr _ _ env m c s r m' c' s' e Hm Hc Hn H); intros; cbn [inv reset]; [reflexivity|congruence].
  - rewrite next_upread in H. refine (unary_reset f (fun u => MUpread u id) _ IHr _ _ env m c s r m' c' s' e Hm Hc Hn H); intros; cbn [inv reset]; [reflexivity|congruence].
  - rewrite next_lexclosure in H. refine (unary_reset f (fun u => MLexClosure u blk n) _ IHr _ _ env m c s r m' c' s' e Hm Hc Hn H); intros; cbn [inv reset]; [reflexivity|congruence].
  - (* ifelse *)
    destruct Hm as [Hup [Qc [Qt [Qe Hact]]]]. cbn [next] in H. destruct active as [[am sl]|].
    + destruct (next f env am (LOrigin sl) s) as [| | |[[[[ri am'] ci] si] ei]] eqn:Ei; try discriminate.
      destruct (sub_pull f (main f) _ _ _ _ _ _ _ _ _ Hact Ei) as [J1 [[sl' [-> J2]] J3]].
      destruct ri as [rs|].
      * inversion H; subst. cbn [reset]. split; [reflexivity|apply csame_refl].
      * apply add_errs_ret in H. destruct H as [e1 H].
        assert (inv (MIfElse m1 m2 m3 m4 None)) as Inew by (cbn [inv]; repeat split; auto).
        destruct (IHr _ _ c _ _ _ _ _ _ Inew Hc Hn H) as [Q1 Q2]. split; [rewrite Q1; reflexivity|exact Q2].
    + pull2 H Eu IHr Hup Hc Hn. destruct ru as [stk|].
      * cbn [isnone] in I4.
        destruct (next f env m2 (LOrigin (Some stk)) su) as [| | |[[[[rc cm] cc] sc] ec]] eqn:Ec; try discriminate.
        destruct rc as [rcs|]; apply add_errs_ret in H; destruct H as [e1 H].
        -- assert (inv (MIfElse up' m2 m3 m4 (Some (m3, Some stk)))) as Inew by (cbn [inv]; repeat split; auto; apply quiet_inv; assumption).
           destruct (IHr _ _ cu _ _ _ _ _ _ Inew I2 (cpost_false_nodone _ I4) H) as [Q1 Q2].
           split; [rewrite Q1; cbn [reset]; rewrite R1; reflexivity|eapply csame_trans; eauto].
        -- assert (inv (MIfElse up' m2 m3 m4 (Some (m4, Some stk)))) as Inew by (cbn [inv]; repeat split; auto; apply quiet_inv; assumption).
           destruct (IHr _ _ cu _ _ _ _ _ _ Inew I2 (cpost_false_nodone _ I4) H) as [Q1 Q2].
           split; [rewrite Q1; cbn [reset]; rewrite R1; reflexivity|eapply csame_trans; eauto].
      * inversion H; subst. cbn [reset]. rewrite R1. split; [reflexivity|exact R2].
  - (* word *)
    cbn [inv] in Hm. cbn [next] in H. destruct pending as [|stk rest].
    + pull2 H Eu IHr Hm Hc Hn. destruct ru as [stk|].
      * destruct (run_word P w stk) as [|outs e'] eqn:W; [discriminate|]. destruct outs as [|o outs].
        -- apply add_errs_ret in H. destruct H as [e1 H]. cbn [isnone] in I4.
           destruct (IHr _ (MWord up' w []) cu _ _ _ _ _ _ I1 I2 (cpost_false_nodone _ I4) H) as [Q1 Q2].
           split; [rewrite Q1; cbn [reset]; rewrite R1; reflexivity|eapply csame_trans; eauto].
        -- inversion H; subst. cbn [reset]. rewrite R1. split; [reflexivity|exact R2].
      * inversion H; subst. cbn [reset]. rewrite R1. split; [reflexivity|exact R2].
    + inversion H; subst. cbn [reset]. split; [reflexivity|apply csame_refl].
  - (* apply *)
    destruct Hm as [Hup Hsub]. cbn [next] in H. destruct sub as [[[[bm bsl] bs] benv]|].
    + destruct (next f benv bm (LOrigin bsl) bs) as [| | |[[[[rb bm'] cb] sb] eb]] eqn:Eb; try discriminate.
      destruct (sub_pull f (main f) _ _ _ _ _ _ _ _ _ Hsub Eb) as [J1 [[sl' [-> J2]] J3]].
      destruct rb as [rs|].
      * inversion H; subst. cbn [reset]. split; [reflexivity|apply csame_refl].
      * apply add_errs_ret in H. destruct H as [e1 H].
        assert (inv (MApply m skip None)) as Inew by (cbn [inv]; split; auto).
        destruct (IHr _ _ c _ _ _ _ _ _ Inew Hc Hn H) as [Q1 Q2]. split; [rewrite Q1; reflexivity|exact Q2].
    + pull2 H Eu IHr Hup Hc Hn. destruct ru as [stk|].
      * cbn [isnone] in I4. destruct stk as [|v rest]; [discriminate|].
        assert (forall X, add_errs (eu ++ [SErr]) (next f env (MApply up' skip None) cu su) = Ret X ->
                          reset (snd (fst (fst (fst X)))) = reset (MApply m skip None) /\ csame c (snd (fst (fst X)))) as SKIP.
        { intros [[[[r0 m0] c0] s0] e0] HX. apply add_errs_ret in HX. destruct HX as [e1 HX]. cbn [fst snd].
          assert (inv (MApply up' skip None)) as Inew by (cbn [inv]; split; auto).
          destruct (IHr _ _ cu _ _ _ _ _ _ Inew I2 (cpost_false_nodone _ I4) HX) as [Q1 Q2].
          split; [rewrite Q1; cbn [reset]; rewrite R1; reflexivity|eapply csame_trans; eauto]. }
        destruct v as [z d p|b p|l p|blk cenv p];
          try (destruct skip; [inversion H; subst; cbn [reset]; rewrite R1; split; [reflexivity|exact R2]|exact (SKIP _ H)]).
        destruct (nth_error blks (N.to_nat blk)) as [body|] eqn:Nb; [|discriminate].
        apply add_errs_ret in H. destruct H as [e1 H].
        assert (inv (MApply up' skip (Some (body, Some rest, [], cenv)))) as Inew.
        { cbn [inv]. split; [exact I1|]. apply quiet_inv. rewrite Forall_forall in blks_quiet. apply blks_quiet. eapply nth_error_In; eauto. }
        destruct (IHr _ _ cu _ _ _ _ _ _ Inew I2 (cpost_false_nodone _ I4) H) as [Q1 Q2].
        split; [rewrite Q1; cbn [reset]; rewrite R1; reflexivity|eapply csame_trans; eauto].
      * inversion H; subst. cbn [reset]. rewrite R1. split; [reflexivity|exact R2].
  - rewrite next_debug in H. refine (unary_reset f MDebug _ IHr _ _ env m c s r m' c' s' e Hm Hc Hn H); intros; cbn [inv reset]; [reflexivity|congruence].
Qed.

Theorem mainR_both : forall f, MainR f /\ MainRS f.
Proof.
  induction f as [|f [A B]].
  - split; [intros env m c s r m' c' s' e _ _ _ H|intros env parts oslot s r parts' oslot' s' e _ H]; discriminate.
  - split; [apply mainR_step|apply caseR_snext]; assumption.
Qed.

Theorem mainR : forall f, MainR f.
Proof. intros f. apply mainR_both. Qed.

(* ---- the engine forgets ---- *)

(* pulling a chain dry: the stacks it yields, and the state it is left in *)
Inductive drains (f : nat) (env : list value) : mach -> lctx -> store -> list stack -> mach -> lctx -> store -> Prop :=
| dr_done m c s m' c' s' e : next f env m c s = Ret (None, m', c', s', e) -> drains f env m c s [] m' c' s'
| dr_more m c s stk m1 c1 s1 e outs m' c' s' :
    next f env m c s = Ret (Some stk, m1, c1, s1, e) -> drains f env m1 c1 s1 outs m' c' s' ->
    drains f env m c s (stk :: outs) m' c' s'.

Theorem drained_is_pristine f env m c s outs m' c' s' :
  inv m -> cinv c -> nodone c -> drains f env m c s outs m' c' s' ->
  quiet m' /\ reset m' = reset m /\ cinv c' /\ shape c c' /\ cpost c' true.
Proof.
  intros Hm Hc Hn D. induction D as [m c s m' c' s' e H|m c s stk m1 c1 s1 e outs m' c' s' H D IH].
  - destruct (main f _ _ _ _ _ _ _ _ _ Hm Hc Hn H) as [I1 [I2 [I3 [I4 I5]]]].
    destruct (mainR f _ _ _ _ _ _ _ _ _ Hm Hc Hn H) as [R1 _]. repeat split; auto.
  - destruct (main f _ _ _ _ _ _ _ _ _ Hm Hc Hn H) as [I1 [I2 [I3 [I4 I5]]]].
    destruct (mainR f _ _ _ _ _ _ _ _ _ Hm Hc Hn H) as [R1 _]. cbn [isnone] in I4.
    destruct (IH I1 I2 (cpost_false_nodone _ I4)) as [Q1 [Q2 [Q3 [Q4 Q5]]]].
    repeat split; auto; [congruence|eapply shape_trans; eauto].
Qed.

(* C01, engine side, every op: a chain that was pulled dry is in its constructed
   state again -- the same ops, every one of them pristine; the only thing that
   may differ from the chain as constructed is the position counter of a format
   op, which that op sets back when the next stack arrives (op_format::next) *)
Theorem engine_forgets_any f env m sl s outs m' c' s' :
  quiet m -> drains f env m (LOrigin sl) s outs m' c' s' ->
  quiet m' /\ reset m' = reset m /\ c' = LOrigin None.
Proof.
  intros Q D.
  assert (cinv (LOrigin sl)) as C1 by exact I. assert (nodone (LOrigin sl)) as C2 by exact I.
  destruct (drained_is_pristine f env m _ s outs m' c' s' (quiet_inv _ Q) C1 C2 D) as [Q1 [Q2 [Q3 [Q4 Q5]]]].
  split; [exact Q1|]. split; [exact Q2|].
  destruct c' as [sl'|]; [|cbn in Q4; contradiction]. cbn in Q5. rewrite (Q5 eq_refl). reflexivity.
Qed.

(* without format ops: a chain that was pulled dry is literally the chain it was
   constructed as -- so what it does with the next input cannot depend on the
   inputs it has seen *)
Theorem engine_forgets f env m sl s outs m' c' s' :
  quiet m -> has_format m = false -> drains f env m (LOrigin sl) s outs m' c' s' -> m' = m /\ c' = LOrigin None.
Proof.
  intros Q F D. destruct (engine_forgets_any f env m sl s outs m' c' s' Q D) as [Q1 [Q2 Q3]].
  split; [|exact Q3].
  assert (has_format m' = false) as F' by (rewrite <- hf_reset, Q2, hf_reset; exact F).
  rewrite <- (quiet_reset m' Q1 F'), Q2. apply quiet_reset; assumption.
Qed.

(* hence two inputs processed one after the other by the same chain give what
   each gives alone, in that order *)
Corollary engine_stream f env m a b s outsA mA cA sA outsB mB cB sB :
  quiet m -> has_format m = false ->
  drains f env m (LOrigin (Some a)) s outsA mA cA sA ->
  drains f env mA (LOrigin (Some b)) sA outsB mB cB sB ->
  drains f env m (LOrigin (Some b)) sA outsB mB cB sB /\ mB = m.
Proof.
  intros Q F DA DB. destruct (engine_forgets f env m _ s outsA mA cA sA Q F DA) as [-> _].
  split; [exact DB|]. apply (engine_forgets f env m _ sA outsB mB cB sB Q F DB).
Qed.

(* with format ops: the second input meets a pristine chain of the same ops *)
Corollary engine_stream_any f env m a b s outsA mA cA sA outsB mB cB sB :
  quiet m ->
  drains f env m (LOrigin (Some a)) s outsA mA cA sA ->
  drains f env mA (LOrigin (Some b)) sA outsB mB cB sB ->
  quiet mA /\ reset mA = reset m /\ quiet mB /\ reset mB = reset m.
Proof.
  intros Q DA DB. destruct (engine_forgets_any f env m _ s outsA mA cA sA Q DA) as [QA [RA _]].
  destruct (engine_forgets_any f env mA _ sA outsB mB cB sB QA DB) as [QB [RB _]].
  repeat split; auto. congruence.
Qed.
End Proofs.

(* the executable test implies the predicate *)

Lemma all_fix_merge : forall brs,
  (fix all (l : list mach) : bool := match l with [] => true | x :: t => quietb x && all t end) brs = true ->
  forall x, In x brs -> quietb x = true.
Proof.
  induction brs as [|y t IHt]; intros H x Hx; [contradiction|]. apply andb_prop in H. destruct H as [H1 H2].
  destruct Hx as [->|Hx]; [exact H1|apply IHt; assumption].
Qed.

Lemma all_fix_or : forall brs,
  (fix all (l : list (mach * option stack)) : bool :=
     match l with [] => true | (x, sl) :: t => quietb x && is_none sl && all t end) brs = true ->
  forall x sl, In (x, sl) brs -> quietb x = true /\ sl = None.
Proof.
  induction brs as [|[y sy] t IHt]; intros H x sl Hx; [contradiction|].
  apply andb_prop in H. destruct H as [H H3]. apply andb_prop in H. destruct H as [H1 H2].
  destruct Hx as [E|Hx]; [inversion E; subst; split; [exact H1|destruct sl; [discriminate|reflexivity]]|apply IHt; assumption].
Qed.

Lemma all_fix_parts : forall parts,
  (fix all (l : list part) : bool :=
     match l with
     | [] => true
     | PLit _ :: t => all t
     | POp inner slot cur :: t => quietb inner && is_none slot && is_none cur && all t
     end) parts = true ->
  forall inner slot cur, In (POp inner slot cur) parts -> quietb inner = true /\ slot = None /\ cur = None.
Proof.
  induction parts as [|[str|i2 s2 c2] t IHt]; intros H inner slot cur Hx; [contradiction| |].
  - destruct Hx as [E|Hx]; [discriminate|eapply IHt; eassumption].
  - apply andb_prop in H. destruct H as [H H4]. apply andb_prop in H. destruct H as [H H3]. apply andb_prop in H. destruct H as [H1 H2].
    destruct Hx as [E|Hx]; [|eapply IHt; eassumption]. inversion E; subst.
    split; [exact H1|]. split; [destruct slot; [discriminate|reflexivity]|destruct cur; [discriminate|reflexivity]].
Qed.

Lemma quietb_quiet_n : forall n m, msize m <= n -> quietb m = true -> quiet m.
Proof.
  induction n as [|n IH]; intros m Hs; [destruct m; cbn in Hs; lia|].
  destruct m; try (cbn [quietb quiet]; auto; fail);
    try (cbn [quietb quiet msize] in *; intros H; apply IH; [lia|exact H]; fail);
    cbn [quietb msize] in *; intros H; try discriminate H.
  - (* MFormat *)
    apply andb_prop in H. destruct H as [H H3]. apply andb_prop in H. destruct H as [H1 H2].
    apply quiet_format. split; [apply IH; [lia|exact H1]|]. split; [|destruct oslot; [discriminate|reflexivity]].
    rewrite Forall_forall. intros [str|inner slot cur] Hin; [exact I|].
    destruct (all_fix_parts parts H2 inner slot cur Hin) as [Q1 [-> ->]]. cbn [pquiet]. split; [|auto].
    apply IH; [|exact Q1]. pose proof (msize_in_parts inner None None parts Hin). lia.
  - (* MMerge *)
    apply andb_prop in H. destruct H as [H H7]. apply andb_prop in H. destruct H as [H H6]. apply andb_prop in H. destruct H as [H H5].
    apply andb_prop in H. destruct H as [H H4]. apply andb_prop in H. destruct H as [H H3]. apply andb_prop in H. destruct H as [H1 H2].
    apply Nat.eqb_eq in H4, H6. apply negb_true_iff in H5, H7.
    apply quiet_merge. split; [apply IH; [lia|exact H1]|]. split.
    + unfold all_quiet. rewrite Forall_forall. intros x Hx. apply IH; [pose proof (msize_in_merge x brs Hx); lia|].
      eapply all_fix_merge; eauto.
    + repeat split; auto. intros ->. discriminate.
  - (* MOr *)
    apply andb_prop in H. destruct H as [H H3]. apply andb_prop in H. destruct H as [H1 H2].
    apply quiet_or. split; [apply IH; [lia|exact H1]|]. split; [|destruct cur; [discriminate|reflexivity]].
    unfold all_quiet_or. rewrite Forall_forall. intros [x sl] Hx. cbn [fst snd].
    destruct (all_fix_or brs H2 x sl Hx) as [Q ->]. split; [|reflexivity].
    apply IH; [pose proof (msize_in_or x None brs Hx); lia|exact Q].
  - (* MCapture *) apply andb_prop in H. destruct H as [H1 H2]. cbn [quiet]. split; apply IH; try lia; assumption.
  - (* MClosure *)
    apply andb_prop in H. destruct H as [H H6]. apply andb_prop in H. destruct H as [H H5]. apply andb_prop in H. destruct H as [H H4].
    apply andb_prop in H. destruct H as [H H3]. apply andb_prop in H. destruct H as [H1 H2].
    cbn [quiet]. destruct slot; [discriminate|]. destruct seen; [|discriminate]. destruct stks; [|discriminate]. subst.
    repeat split; auto; apply IH; try lia; assumption.
  - (* MSubx *)
    apply andb_prop in H. destruct H as [H H4]. apply andb_prop in H. destruct H as [H H3]. apply andb_prop in H. destruct H as [H1 H2].
    cbn [quiet]. destruct saved; [discriminate|]. destruct slot; [discriminate|]. repeat split; auto; apply IH; try lia; assumption.
  - (* MIfElse *)
    apply andb_prop in H. destruct H as [H H5]. apply andb_prop in H. destruct H as [H H4]. apply andb_prop in H. destruct H as [H H3].
    apply andb_prop in H. destruct H as [H1 H2].
    cbn [quiet]. destruct active; [discriminate|]. repeat split; auto; apply IH; try lia; assumption.
  - (* MWord *) apply andb_prop in H. destruct H as [H1 H2]. cbn [quiet]. destruct pending; [|discriminate]. split; [apply IH; [lia|assumption]|reflexivity].
  - (* MApply *) apply andb_prop in H. destruct H as [H1 H2]. cbn [quiet]. destruct sub; [discriminate|]. split; [apply IH; [lia|assumption]|reflexivity].
Qed.

Theorem quietb_quiet m : quietb m = true -> quiet m.
Proof. apply (quietb_quiet_n (msize m)). lia. Qed.
