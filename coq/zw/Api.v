(* The C API over one compiled query as a state machine (libzwerg.cc:
   zw_query_execute / zw_result_next / zw_result_destroy).  Each result set
   owns its run-time state (struct zw_result: scon m_sc); the query itself is
   immutable.  Model, then the projection theorem. *)
From Coq Require Import ZArith NArith List Bool Lia.
From Dwgrep Require Import Radix Value Words Tree Engine Build.
Import ListNotations.

Module ApiM.

Section Api.
  Variable P : params.
  Variable blks : list mach.
  Variable prog : mach.                 (* the built query: pristine machine *)
  Variable fuel : nat.

  Inductive op :=
  | Execute (r : nat) (input : stack)   (* zw_query_execute -> result set r *)
  | Pull (r : nat)                      (* zw_result_next on r *)
  | Destroy (r : nat).                  (* zw_result_destroy *)

  (* state of one result set; None once exhausted-with-error or out of fuel *)
  Definition rstate := (mach * lctx * store)%type.

  Inductive answer :=
  | AStack (s : stack) (errs : list soft)
  | AEnd (errs : list soft)             (* *out_stack = NULL *)
  | AError                              (* zw_result_next returned false *)
  | AFuel | AStuck | ANoSuch.

  Definition table := list (nat * rstate).

  Fixpoint tget (t : table) (r : nat) : option rstate :=
    match t with
    | [] => None
    | (k, s) :: t' => if Nat.eqb k r then Some s else tget t' r
    end.
  Fixpoint tdel (t : table) (r : nat) : table :=
    match t with
    | [] => []
    | (k, s) :: t' => if Nat.eqb k r then tdel t' r else (k, s) :: tdel t' r
    end.
  Definition tset (t : table) (r : nat) (s : rstate) : table := (r, s) :: tdel t r.

  Definition pull1 (s : rstate) : answer * option rstate :=
    let '(m, c, st) := s in
    match next P blks fuel [] m c st with
    | Ret (Some stk, m', c', st', e) => (AStack stk e, Some (m', c', st'))
    | Ret (None, m', c', st', e) => (AEnd e, Some (m', c', st'))
    | Abort => (AError, Some s)
    | Fuel => (AFuel, Some s)
    | Stuck => (AStuck, Some s)
    end.

  (* one API call: new table and, for Pull, the answer *)
  Definition step (t : table) (o : op) : table * option (nat * answer) :=
    match o with
    | Execute r input => (tset t r (prog, LOrigin (Some input), []), None)
    | Destroy r => (tdel t r, None)
    | Pull r =>
      match tget t r with
      | None => (t, Some (r, ANoSuch))
      | Some s =>
        match pull1 s with
        | (a, Some s') => (tset t r s', Some (r, a))
        | (a, None) => (tdel t r, Some (r, a))
        end
      end
    end.

  Fixpoint run_hist (t : table) (h : list op) : list (nat * answer) :=
    match h with
    | [] => []
    | o :: h' =>
      let '(t', a) := step t o in
      match a with Some x => x :: run_hist t' h' | None => run_hist t' h' end
    end.

  (* the part of a history that concerns result set r *)
  Definition concerns (r : nat) (o : op) : bool :=
    match o with Execute k _ | Pull k | Destroy k => Nat.eqb k r end.

  Definition answers_for (r : nat) (l : list (nat * answer)) : list answer :=
    map snd (filter (fun x => Nat.eqb (fst x) r) l).
End Api.

End ApiM.
Export ApiM.
