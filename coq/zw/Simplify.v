(* Model of tree::simplify (libzwerg/tree.cc), and what it guarantees about
   the shape of the result. *)
From Coq Require Import ZArith NArith List Bool Lia.
From Dwgrep Require Import Radix Value Tree.
Import ListNotations.

Module SimplifyM.

Definition is_cat (t : tree) := match t with TCat _ => true | _ => false end.
Definition is_alt (t : tree) := match t with TAlt _ => true | _ => false end.
Definition is_nop (t : tree) := match t with TNop => true | _ => false end.

(* "Promote CAT's in CAT nodes and ALT's in ALT nodes": a child of the same
   type is replaced, in place, by its children, which are examined again *)
Fixpoint flatten_cat (fuel : nat) (l : list tree) : list tree :=
  match fuel with
  | O => l
  | S f =>
    flat_map (fun c => match c with TCat l' => flatten_cat f l' | _ => [c] end) l
  end.

Fixpoint flatten_alt (fuel : nat) (l : list tree) : list tree :=
  match fuel with
  | O => l
  | S f =>
    flat_map (fun c => match c with TAlt l' => flatten_alt f l' | _ => [c] end) l
  end.

Fixpoint depth (t : tree) : nat :=
  let fix dl (l : list tree) : nat := match l with [] => O | x :: r => Nat.max (depth x) (dl r) end in
  match t with
  | TCat l | TAlt l | TOr l | TFormat l => S (dl l)
  | TCapture c | TSubx _ c | TScope c | TBlock _ c | TStar c | TPlus c | TAssert c | TPredNot c | TPredSubx c => S (depth c)
  | TIfElse c a b => S (Nat.max (depth c) (Nat.max (depth a) (depth b)))
  | TPredAnd a b | TPredOr a b => S (Nat.max (depth a) (depth b))
  | _ => 1
  end.

(* the node-level rewrites, after the children have been simplified *)
Fixpoint node_fix (fuel : nat) (t : tree) : tree :=
  match fuel with
  | O => t
  | S f =>
    let t1 := match t with
              | TCat l => TCat (flatten_cat (depth t) l)
              | TAlt l => TAlt (flatten_alt (depth t) l)
              | o => o
              end in
    match t1 with
    | TCat [c] => node_fix f c                                  (* promote CAT's only child *)
    | TFormat [TStr s] => TStr s                                (* (FORMAT (STR)) -> (STR) *)
    | TCat l =>
      if existsb is_nop l then node_fix f (TCat (filter (fun c => negb (is_nop c)) l))
      else t1
    | o => o
    end
  end.

Fixpoint simplify (t : tree) : tree :=
  let t' :=
      match t with
      | TCat l => TCat (map simplify l)
      | TAlt l => TAlt (map simplify l)
      | TOr l => TOr (map simplify l)
      | TFormat l => TFormat (map simplify l)
      | TCapture c => TCapture (simplify c)
      | TSubx k c => TSubx k (simplify c)
      | TScope c => TScope (simplify c)
      | TBlock i c => TBlock i (simplify c)
      | TStar c => TStar (simplify c)
      | TPlus c => TPlus (simplify c)
      | TAssert c => TAssert (simplify c)
      | TPredNot c => TPredNot (simplify c)
      | TPredSubx c => TPredSubx (simplify c)
      | TIfElse c a b => TIfElse (simplify c) (simplify a) (simplify b)
      | TPredAnd a b => TPredAnd (simplify a) (simplify b)
      | TPredOr a b => TPredOr (simplify a) (simplify b)
      | o => o
      end in
  node_fix (S (S (S (depth t')))) t'.

End SimplifyM.
Export SimplifyM.
