(* Whatever the builder (Build.v = build.cc / bindings.cc) makes of a program
   without format strings is a chain in its constructed state, and so are the
   bodies of its blocks: the hypotheses of the engine theorems hold for every
   such program, not only for the tested ones. *)
From Coq Require Import ZArith NArith List Bool Arith Lia.
From Dwgrep Require Import Radix Value Words Tree Engine Build Quiet EngineProofs.
Import ListNotations.

Fixpoint tsize (t : tree) : nat :=
  match t with
  | TCat l | TAlt l | TOr l | TFormat l =>
    S ((fix sum (l : list tree) : nat := match l with [] => 0 | x :: r => tsize x + sum r end) l)
  | TCapture c | TSubx _ c | TScope c | TBlock _ c | TStar c | TPlus c | TAssert c | TPredNot c | TPredSubx c => S (tsize c)
  | TIfElse c a b => S (tsize c + tsize a + tsize b)
  | TPredAnd a b | TPredOr a b => S (tsize a + tsize b)
  | _ => 1
  end.

(* every `,` has at least one branch (the parser never builds an empty one) *)
Fixpoint wf_tree (t : tree) : bool :=
  match t with
  | TCat l | TOr l | TFormat l => (fix all (l : list tree) : bool := match l with [] => true | x :: r => wf_tree x && all r end) l
  | TAlt l => negb (match l with [] => true | _ => false end)
              && (fix all (l : list tree) : bool := match l with [] => true | x :: r => wf_tree x && all r end) l
  | TCapture c | TSubx _ c | TScope c | TBlock _ c | TStar c | TPlus c | TAssert c | TPredNot c | TPredSubx c => wf_tree c
  | TIfElse c a b => wf_tree c && wf_tree a && wf_tree b
  | TPredAnd a b | TPredOr a b => wf_tree a && wf_tree b
  | _ => true
  end.

(* no format string anywhere *)
Fixpoint nf_tree (t : tree) : bool :=
  match t with
  | TCat l | TOr l | TAlt l => (fix all (l : list tree) : bool := match l with [] => true | x :: r => nf_tree x && all r end) l
  | TFormat _ => false
  | TCapture c | TSubx _ c | TScope c | TBlock _ c | TStar c | TPlus c | TAssert c | TPredNot c | TPredSubx c => nf_tree c
  | TIfElse c a b => nf_tree c && nf_tree a && nf_tree b
  | TPredAnd a b | TPredOr a b => nf_tree a && nf_tree b
  | _ => true
  end.

Lemma nf_all_in x : forall l,
  (fix all (l : list tree) : bool := match l with [] => true | x :: r => nf_tree x && all r end) l = true ->
  In x l -> nf_tree x = true.
Proof.
  induction l as [|y r IH]; intros H Hx; [contradiction|]. apply andb_prop in H. destruct H as [H1 H2].
  destruct Hx as [->|Hx]; [exact H1|apply IH; assumption].
Qed.

Lemma tsize_in x : forall l, In x l ->
  tsize x <= (fix sum (l : list tree) : nat := match l with [] => 0 | x :: r => tsize x + sum r end) l.
Proof. induction l as [|y r IH]; intros H; [contradiction|]. destruct H as [->|H]; [lia|apply IH in H; lia]. Qed.

Lemma wf_all_in x : forall l,
  (fix all (l : list tree) : bool := match l with [] => true | x :: r => wf_tree x && all r end) l = true ->
  In x l -> wf_tree x = true.
Proof.
  induction l as [|y r IH]; intros H Hx; [contradiction|]. apply andb_prop in H. destruct H as [H1 H2].
  destruct Hx as [->|Hx]; [exact H1|apply IH; assumption].
Qed.

Lemma all_none_map {A} (l : list A) : all_none (map (fun _ => @None stack) l) = true.
Proof. induction l; cbn; auto. Qed.

Section B.
Variable tc : tcodes.

Definition good_build (t : tree) : Prop :=
  forall upm bn up st m bn' up' st', quiet upm -> Forall quiet (blocks st) ->
    build tc t upm bn up st = BOk (m, bn', up', st') -> quiet m /\ Forall quiet (blocks st').
Definition good_pred (t : tree) : Prop :=
  forall bn up st pm bn' up' st', Forall quiet (blocks st) ->
    build_pred tc t bn up st = BOk (pm, bn', up', st') -> Forall quiet (blocks st').

Lemma quiet_builtin b upm : quiet upm -> quiet (build_builtin b upm).
Proof. intros Q. destruct b as [w|[] w]; [destruct w|..]; cbn; auto. Qed.

(* the list of branches of `,` / `||`, each built on a leaf of its own *)
Lemma branches_quiet l : (forall x, In x l -> good_build x) -> forall acc bn up st brs bn' up' st',
  Forall quiet acc -> Forall quiet (blocks st) ->
  (fix go (l : list tree) (acc : list mach) (bn : bindings) (up : uprefs) (st : bstate) {struct l} :=
     match l with
     | [] => BOk (acc, bn, up, st)
     | ch :: rest =>
       match build tc ch MLeaf bn up st with
       | BOk (m, bn', up', st') => go rest (acc ++ [m]) bn' up' st'
       | BErr e => BErr e
       end
     end) l acc bn up st = BOk (brs, bn', up', st') ->
  Forall quiet brs /\ Forall quiet (blocks st') /\ length brs = (length acc + length l)%nat.
Proof.
  induction l as [|ch rest IH]; intros G acc bn up st brs bn' up' st' Qa Qs H.
  - inversion H; subst. repeat split; auto; cbn; lia.
  - destruct (build tc ch MLeaf bn up st) as [[[[m bn1] up1] st1]|e] eqn:E; [|discriminate].
    destruct (G ch (or_introl eq_refl) MLeaf bn up st m bn1 up1 st1 I Qs E) as [Qm Qs1].
    destruct (IH (fun x Hx => G x (or_intror Hx)) (acc ++ [m]) bn1 up1 st1 brs bn' up' st') as [A [B C]]; auto.
    + apply Forall_app. split; [exact Qa|constructor; [exact Qm|constructor]].
    + repeat split; auto. rewrite app_length in C. cbn in *. lia.
Qed.

Lemma reads_quiet bn : forall (l : list (name * nat)) upm up upm' up', quiet upm ->
  (fix go (l : list (name * nat)) (upm : mach) (up : uprefs) {struct l} :=
     match l with
     | [] => BOk (upm, up)
     | (n, _) :: rest =>
       match bfind tc bn n with
       | Some (BdBind id) => go rest (MRead upm id) up
       | Some (BdBuiltin _) => BErr BStuck
       | None =>
         match ufind tc up n with
         | Some (UFValue id, up') => go rest (MUpread upm id) up'
         | _ => BErr BStuck
         end
       end
     end) l upm up = BOk (upm', up') -> quiet upm'.
Proof.
  induction l as [|[nm k] rest IHl]; intros upm up upm' up' Qu EG.
  - inversion EG; subst. exact Qu.
  - destruct (bfind tc bn nm) as [[b|id]|]; try discriminate.
    + eapply IHl; [|exact EG]. exact Qu.
    + destruct (ufind tc up nm) as [[[b|id] up3]|]; try discriminate. eapply IHl; [|exact EG]. exact Qu.
Qed.


(* the stringer chain of a format string: literals and sub-programs, each on a leaf of its own *)
Lemma parts_quiet l : (forall x, In x l -> good_build x) -> forall acc bn up st parts bn' up' st',
  Forall pquiet acc -> Forall quiet (blocks st) ->
  (fix go (l : list tree) (acc : list part) (bn : bindings) (up : uprefs) (st : bstate) {struct l} :=
     match l with
     | [] => BOk (acc, bn, up, st)
     | TStr s :: rest =>
       match go rest acc bn up st with
       | BOk (acc', bn', up', st') => BOk (PLit s :: acc', bn', up', st')
       | BErr e => BErr e
       end
     | ch :: rest =>
       match go rest acc bn up st with
       | BOk (acc', bn', up', st') =>
         match build tc ch MLeaf bn' up' st' with
         | BOk (m, bn'', up'', st'') => BOk (POp m None None :: acc', bn'', up'', st'')
         | BErr e => BErr e
         end
       | BErr e => BErr e
       end
     end) l acc bn up st = BOk (parts, bn', up', st') ->
  Forall pquiet parts /\ Forall quiet (blocks st').
Proof.
  induction l as [|ch rest IH]; intros G acc bn up st parts bn' up' st' Qa Qs H.
  - inversion H; subst. auto.
  - assert (forall ac1 bn1 up1 st1,
      (fix go (l : list tree) (acc : list part) (bn : bindings) (up : uprefs) (st : bstate) {struct l} :=
     match l with
     | [] => BOk (acc, bn, up, st)
     | TStr s :: rest =>
       match go rest acc bn up st with
       | BOk (acc', bn', up', st') => BOk (PLit s :: acc', bn', up', st')
       | BErr e => BErr e
       end
     | ch :: rest =>
       match go rest acc bn up st with
       | BOk (acc', bn', up', st') =>
         match build tc ch MLeaf bn' up' st' with
         | BOk (m, bn'', up'', st'') => BOk (POp m None None :: acc', bn'', up'', st'')
         | BErr e => BErr e
         end
       | BErr e => BErr e
       end
     end) rest acc bn up st = BOk (ac1, bn1, up1, st1) -> Forall pquiet ac1 /\ Forall quiet (blocks st1)) as R.
    { intros ac1 bn1 up1 st1 E. apply (IH (fun x Hx => G x (or_intror Hx)) acc bn up st ac1 bn1 up1 st1 Qa Qs E). }
    destruct ch;
      try (match type of H with
           | match ?X with _ => _ end = _ => destruct X as [[[[ac1 bn1] up1] st1]|e] eqn:E; [|discriminate]
           end;
           destruct (R _ _ _ _ eq_refl) as [A B];
           match type of H with
           | match ?X with _ => _ end = _ => destruct X as [[[[m1 bn2] up2] st2]|e] eqn:E2; [|discriminate]
           end;
           inversion H; subst;
           match type of E2 with
           | build tc ?c MLeaf _ _ _ = _ => destruct (G c (or_introl eq_refl) MLeaf _ _ _ _ _ _ _ I B E2) as [Qm Qs2]
           end;
           split; [constructor; [cbn [pquiet]; auto|exact A]|exact Qs2]; fail).
    (* TStr *)
    match type of H with
    | match ?X with _ => _ end = _ => destruct X as [[[[ac1 bn1] up1] st1]|e] eqn:E; [|discriminate]
    end.
    destruct (R _ _ _ _ eq_refl) as [A B]. inversion H; subst. split; [constructor; [exact I|exact A]|exact B].
Qed.

Ltac bdestruct H E :=
  match type of H with
  | match ?X with _ => _ end = _ => destruct X as [[[[?m1 ?bn1] ?up1] ?st1]|?e] eqn:E; [|discriminate]
  end.

Theorem build_good : forall n t, tsize t <= n -> wf_tree t = true -> good_build t /\ good_pred t.
Proof.
  induction n as [|n IH]; intros t Hs Hw; [destruct t; cbn in Hs; lia|].
  assert (forall x, tsize x <= n -> wf_tree x = true -> good_build x) as GB by (intros x A B; apply (IH x A B)).
  assert (forall x, tsize x <= n -> wf_tree x = true -> good_pred x) as GP by (intros x A B; apply (IH x A B)).
  assert (forall b, good_pred (TBuiltin b)) as PB.
  { intros b bn up st pm bn' up' st' Qs H. destruct b; cbn in H; inversion H; subst; auto. }
  assert (forall x, (forall bn up st pm bn' up' st', build_pred tc x bn up st = BOk (pm, bn', up', st') -> False) -> good_pred x) as PSTUCK.
  { intros x F bn up st pm bn' up' st' _ H. exfalso. eapply F; eauto. }
  destruct t; cbn [tsize wf_tree] in Hs, Hw.
  - (* TCat *)
    split; [|apply PSTUCK; intros; discriminate].
    assert (forall x, In x l -> good_build x) as G.
    { intros x Hx. apply GB; [pose proof (tsize_in x l Hx); lia|eapply wf_all_in; eauto]. }
    clear - G. intros upm bn up st m bn' up' st' Qu Qs H. cbn [build] in H.
    revert upm bn up st Qu Qs H. induction l as [|ch rest IHl]; intros upm bn up st Qu Qs H.
    + inversion H; subst. auto.
    + bdestruct H E. destruct (G ch (or_introl eq_refl) _ _ _ _ _ _ _ _ Qu Qs E) as [Q1 Q2].
      eapply (IHl (fun x Hx => G x (or_intror Hx))); eauto.
  - (* TAlt *)
    split; [|apply PSTUCK; intros; discriminate].
    apply andb_prop in Hw. destruct Hw as [Hne Hw].
    assert (forall x, In x l -> good_build x) as G.
    { intros x Hx. apply GB; [pose proof (tsize_in x l Hx); lia|eapply wf_all_in; eauto]. }
    intros upm bn up st m bn' up' st' Qu Qs H. cbn [build] in H.
    match type of H with match ?X with _ => _ end = _ => destruct X as [[[[brs bn1] up1] st1]|e] eqn:E; [|discriminate] end.
    destruct (branches_quiet l G [] bn up st brs bn1 up1 st1 (Forall_nil _) Qs E) as [A [B C]].
    inversion H; subst. split; [|exact B]. apply quiet_merge. repeat split; auto.
    + apply all_none_map.
    + apply map_length.
    + intros ->. cbn in C. destruct l; [discriminate|cbn in C; lia].
  - (* TOr *)
    split; [|apply PSTUCK; intros; discriminate].
    assert (forall x, In x l -> good_build x) as G.
    { intros x Hx. apply GB; [pose proof (tsize_in x l Hx); lia|eapply wf_all_in; eauto]. }
    intros upm bn up st m bn' up' st' Qu Qs H. cbn [build] in H.
    match type of H with match ?X with _ => _ end = _ => destruct X as [[[[brs bn1] up1] st1]|e] eqn:E; [|discriminate] end.
    destruct (branches_quiet l G [] bn up st brs bn1 up1 st1 (Forall_nil _) Qs E) as [A [B C]].
    inversion H; subst. split; [|exact B]. apply quiet_or. repeat split; auto.
    unfold all_quiet_or, mk_or_branches. rewrite Forall_forall in *. intros [x sl] Hx. apply in_map_iff in Hx. destruct Hx as [y [Ey Hy]].
    inversion Ey; subst. cbn. split; [apply A; exact Hy|reflexivity].
  - (* TCapture *)
    split; [|apply PSTUCK; intros; discriminate]. intros upm bn up st m bn' up' st' Qu Qs H. cbn [build] in H. bdestruct H E.
    destruct (GB t ltac:(lia) Hw MLeaf _ _ _ _ _ _ _ I Qs E) as [Q1 Q2]. inversion H; subst. cbn [quiet]; repeat split; auto.
  - (* TSubx *)
    split; [|apply PSTUCK; intros; discriminate]. intros upm bn up st m bn' up' st' Qu Qs H. cbn [build] in H. bdestruct H E.
    destruct (GB t ltac:(lia) Hw MLeaf _ _ _ _ _ _ _ I Qs E) as [Q1 Q2]. inversion H; subst. cbn [quiet]; repeat split; auto.
  - (* TIfElse *)
    split; [|apply PSTUCK; intros; discriminate]. apply andb_prop in Hw. destruct Hw as [Hw W3]. apply andb_prop in Hw. destruct Hw as [W1 W2].
    intros upm bn up st m bn' up' st' Qu Qs H. cbn [build] in H. bdestruct H E1. bdestruct H E2. bdestruct H E3.
    destruct (GB t1 ltac:(lia) W1 MLeaf _ _ _ _ _ _ _ I Qs E1) as [Q1 S1].
    destruct (GB t2 ltac:(lia) W2 MLeaf _ _ _ _ _ _ _ I S1 E2) as [Q2 S2].
    destruct (GB t3 ltac:(lia) W3 MLeaf _ _ _ _ _ _ _ I S2 E3) as [Q3 S3].
    inversion H; subst. cbn [quiet]; repeat split; auto.
  - (* TScope *)
    split; [|apply PSTUCK; intros; discriminate]. intros upm bn up st m bn' up' st' Qu Qs H. cbn [build] in H. bdestruct H E.
    destruct (GB t ltac:(lia) Hw upm _ _ _ _ _ _ _ Qu Qs E) as [Q1 Q2]. inversion H; subst. auto.
  - (* TBlock *)
    split; [|apply PSTUCK; intros; discriminate]. intros upm bn up st m bn' up' st' Qu Qs H. cbn [build] in H. bdestruct H E.
    destruct (GB t ltac:(lia) Hw MLeaf _ _ _ _ _ _ _ I Qs E) as [Q1 Q2].
    match type of H with match ?X with _ => _ end = _ => destruct X as [[upm' up2]|e] eqn:EG; [|discriminate] end.
    inversion H; subst. cbn [quiet blocks]. split; [|apply Forall_app; split; [exact Q2|constructor; [exact Q1|constructor]]].
    eapply reads_quiet; [exact Qu|exact EG].
  - (* TBind *)
    split; [|apply PSTUCK; intros; discriminate]. intros upm bn up st m bn' up' st' Qu Qs H. cbn [build] in H.
    destruct (bbind bn n0 (next_id st)); [|discriminate]. inversion H; subst. cbn [quiet blocks]; repeat split; auto.
  - (* TRead *)
    split; [|apply PSTUCK; intros; discriminate]. intros upm bn up st m bn' up' st' Qu Qs H. cbn [build] in H.
    destruct (bfind tc bn n0) as [[b|id]|].
    + inversion H; subst. split; [apply quiet_builtin; exact Qu|exact Qs].
    + inversion H; subst. cbn [quiet]; repeat split; auto.
    + destruct (ufind tc up n0) as [[[b|id] up3]|]; [| |discriminate]; inversion H; subst.
      * split; [apply quiet_builtin; exact Qu|exact Qs].
      * cbn [quiet]; repeat split; auto.
  - (* TNop *) split; [|apply PSTUCK; intros; discriminate]. intros upm bn up st m bn' up' st' Qu Qs H. inversion H; subst. auto.
  - (* TStar *)
    split; [|apply PSTUCK; intros; discriminate]. intros upm bn up st m bn' up' st' Qu Qs H. cbn [build] in H. bdestruct H E.
    destruct (GB t ltac:(lia) Hw MLeaf _ _ _ _ _ _ _ I Qs E) as [Q1 Q2]. inversion H; subst. cbn [quiet]; repeat split; auto.
  - (* TPlus *)
    split; [|apply PSTUCK; intros; discriminate]. intros upm bn up st m bn' up' st' Qu Qs H. cbn [build] in H. bdestruct H E.
    destruct (GB t ltac:(lia) Hw MLeaf _ _ _ _ _ _ _ I Qs E) as [Q1 Q2]. inversion H; subst. cbn [quiet]; repeat split; auto.
  - (* TAssert *)
    split; [|apply PSTUCK; intros; discriminate]. intros upm bn up st m bn' up' st' Qu Qs H. cbn [build] in H. bdestruct H E.
    pose proof (GP t ltac:(lia) Hw _ _ _ _ _ _ _ Qs E) as Q2. inversion H; subst. cbn [quiet]; repeat split; auto.
  - (* TEmptyList *) split; [|apply PSTUCK; intros; discriminate]. intros upm bn up st m bn' up' st' Qu Qs H. inversion H; subst. auto.
  - (* TPredAnd *)
    apply andb_prop in Hw. destruct Hw as [W1 W2]. split; [intros upm bn up st m bn' up' st' Qu Qs H; discriminate|].
    intros bn up st pm bn' up' st' Qs H. cbn [build_pred] in H. bdestruct H E1. bdestruct H E2.
    pose proof (GP t1 ltac:(lia) W1 _ _ _ _ _ _ _ Qs E1) as S1. pose proof (GP t2 ltac:(lia) W2 _ _ _ _ _ _ _ S1 E2) as S2. inversion H; subst. exact S2.
  - (* TPredOr *)
    apply andb_prop in Hw. destruct Hw as [W1 W2]. split; [intros upm bn up st m bn' up' st' Qu Qs H; discriminate|].
    intros bn up st pm bn' up' st' Qs H. cbn [build_pred] in H. bdestruct H E1. bdestruct H E2.
    pose proof (GP t1 ltac:(lia) W1 _ _ _ _ _ _ _ Qs E1) as S1. pose proof (GP t2 ltac:(lia) W2 _ _ _ _ _ _ _ S1 E2) as S2. inversion H; subst. exact S2.
  - (* TPredNot *)
    split; [intros upm bn up st m bn' up' st' Qu Qs H; discriminate|].
    intros bn up st pm bn' up' st' Qs H. cbn [build_pred] in H. bdestruct H E1.
    pose proof (GP t ltac:(lia) Hw _ _ _ _ _ _ _ Qs E1) as S1. inversion H; subst. exact S1.
  - (* TPredSubx *)
    split; [intros upm bn up st m bn' up' st' Qu Qs H; discriminate|].
    intros bn up st pm bn' up' st' Qs H. cbn [build_pred] in H. bdestruct H E1.
    destruct (GB t ltac:(lia) Hw MLeaf _ _ _ _ _ _ _ I Qs E1) as [_ S1]. inversion H; subst. exact S1.
  - (* TConst *) split; [|apply PSTUCK; intros; discriminate]. intros upm bn up st m bn' up' st' Qu Qs H. inversion H; subst. auto.
  - (* TStr *) split; [|apply PSTUCK; intros; discriminate]. intros upm bn up st m bn' up' st' Qu Qs H. inversion H; subst. auto.
  - (* TFormat *)
    split; [|apply PSTUCK; intros; discriminate].
    assert (forall x, In x l -> good_build x) as G.
    { intros x Hx. apply GB; [pose proof (tsize_in x l Hx); lia|eapply wf_all_in; eauto]. }
    intros upm bn up st m bn' up' st' Qu Qs H. cbn [build] in H.
    match type of H with match ?X with _ => _ end = _ => destruct X as [[[[parts bn1] up1] st1]|e] eqn:E; [|discriminate] end.
    destruct (parts_quiet l G [] bn up st parts bn1 up1 st1 (Forall_nil _) Qs E) as [A B].
    inversion H; subst. split; [|exact B]. apply quiet_format. repeat split; auto.
  - (* TDebug *) split; [|apply PSTUCK; intros; discriminate]. intros upm bn up st m bn' up' st' Qu Qs H. inversion H; subst. auto.
  - (* TBuiltin *)
    split; [|apply PB]. intros upm bn up st m bn' up' st' Qu Qs H. destruct b as [pos k|k]; cbn [build] in H; inversion H; subst; cbn [quiet]; repeat split; auto.
Qed.

(* every program is built into a pristine chain with pristine block bodies *)
Theorem build_program_quiet t m blks : wf_tree t = true -> build_program tc t = BOk (m, blks) ->
  quiet m /\ Forall quiet blks.
Proof.
  intros W H. unfold build_program in H.
  destruct (build tc t MLeaf (mkbn [[]] true) UTop (mkbs 0%N [])) as [[[[m1 bn1] up1] st1]|e] eqn:E; [|discriminate].
  inversion H; subst. destruct (build_good (tsize t) t (le_n _) W) as [G _].
  assert (Forall quiet (blocks (mkbs 0%N []))) as Q0 by (cbn; constructor).
  apply (G MLeaf _ _ _ _ _ _ _ I Q0 E).
Qed.

(* ---- programs without format strings are built into chains without the format op ---- *)
Definition nf_build (t : tree) : Prop :=
  forall upm bn up st m bn' up' st', has_format upm = false ->
    build tc t upm bn up st = BOk (m, bn', up', st') -> has_format m = false.

Lemma nf_builtin b upm : has_format upm = false -> has_format (build_builtin b upm) = false.
Proof. intros Q. destruct b as [w|[] w]; [destruct w|..]; cbn; auto. Qed.

Lemma branches_nf l : (forall x, In x l -> nf_build x) -> forall acc bn up st brs bn' up' st',
  (forall x, In x acc -> has_format x = false) ->
  (fix go (l : list tree) (acc : list mach) (bn : bindings) (up : uprefs) (st : bstate) {struct l} :=
     match l with
     | [] => BOk (acc, bn, up, st)
     | ch :: rest =>
       match build tc ch MLeaf bn up st with
       | BOk (m, bn', up', st') => go rest (acc ++ [m]) bn' up' st'
       | BErr e => BErr e
       end
     end) l acc bn up st = BOk (brs, bn', up', st') ->
  forall x, In x brs -> has_format x = false.
Proof.
  induction l as [|ch rest IH]; intros G acc bn up st brs bn' up' st' Qa H.
  - inversion H; subst. exact Qa.
  - destruct (build tc ch MLeaf bn up st) as [[[[m bn1] up1] st1]|e] eqn:E; [|discriminate].
    pose proof (G ch (or_introl eq_refl) MLeaf bn up st m bn1 up1 st1 eq_refl E) as Qm.
    apply (IH (fun x Hx => G x (or_intror Hx)) (acc ++ [m]) bn1 up1 st1 brs bn' up' st'); [|exact H].
    intros x Hx. apply in_app_or in Hx. destruct Hx as [Hx|[<-|[]]]; [apply Qa; exact Hx|exact Qm].
Qed.

Lemma reads_nf bn : forall (l : list (name * nat)) upm up upm' up', has_format upm = false ->
  (fix go (l : list (name * nat)) (upm : mach) (up : uprefs) {struct l} :=
     match l with
     | [] => BOk (upm, up)
     | (n, _) :: rest =>
       match bfind tc bn n with
       | Some (BdBind id) => go rest (MRead upm id) up
       | Some (BdBuiltin _) => BErr BStuck
       | None =>
         match ufind tc up n with
         | Some (UFValue id, up') => go rest (MUpread upm id) up'
         | _ => BErr BStuck
         end
       end
     end) l upm up = BOk (upm', up') -> has_format upm' = false.
Proof.
  induction l as [|[nm k] rest IHl]; intros upm up upm' up' Qu EG.
  - inversion EG; subst. exact Qu.
  - destruct (bfind tc bn nm) as [[b|id]|]; try discriminate.
    + eapply IHl; [|exact EG]. exact Qu.
    + destruct (ufind tc up nm) as [[[b|id] up3]|]; try discriminate. eapply IHl; [|exact EG]. exact Qu.
Qed.

Lemma any_false_merge : forall brs, (forall x, In x brs -> has_format x = false) ->
  (fix any (l : list mach) : bool := match l with [] => false | x :: t => has_format x || any t end) brs = false.
Proof.
  induction brs as [|y t IHt]; intros H; [reflexivity|]. rewrite (H y (or_introl eq_refl)). cbn [orb].
  apply IHt. intros x Hx. apply H. right. exact Hx.
Qed.

Lemma any_false_or : forall brs, (forall x, In x brs -> has_format x = false) ->
  (fix any (l : list (mach * option stack)) : bool := match l with [] => false | (x, _) :: t => has_format x || any t end)
    (mk_or_branches brs) = false.
Proof.
  induction brs as [|y t IHt]; intros H; [reflexivity|]. cbn [mk_or_branches map]. rewrite (H y (or_introl eq_refl)). cbn [orb].
  apply IHt. intros x Hx. apply H. right. exact Hx.
Qed.

Theorem build_nf : forall n t, tsize t <= n -> nf_tree t = true -> nf_build t.
Proof.
  induction n as [|n IH]; intros t Hs Hw; [destruct t; cbn in Hs; lia|].
  assert (forall x, tsize x <= n -> nf_tree x = true -> nf_build x) as GB by (intros x A B; apply (IH x A B)).
  destruct t; cbn [tsize nf_tree] in Hs, Hw; try discriminate Hw;
    intros upm bn up st m bn' up' st' Qu H; cbn [build] in H; try discriminate H.
  - (* TCat *)
    assert (forall x, In x l -> nf_build x) as G.
    { intros x Hx. apply GB; [pose proof (tsize_in x l Hx); lia|eapply nf_all_in; eauto]. }
    clear - G Qu H. revert upm bn up st Qu H. induction l as [|ch rest IHl]; intros upm bn up st Qu H.
    + inversion H; subst. exact Qu.
    + bdestruct H E. pose proof (G ch (or_introl eq_refl) _ _ _ _ _ _ _ _ Qu E) as Q1.
      eapply (IHl (fun x Hx => G x (or_intror Hx))); eauto.
  - (* TAlt *)
    assert (forall x, In x l -> nf_build x) as G.
    { intros x Hx. apply GB; [pose proof (tsize_in x l Hx); lia|eapply nf_all_in; eauto]. }
    match type of H with match ?X with _ => _ end = _ => destruct X as [[[[brs bn1] up1] st1]|e] eqn:E; [|discriminate] end.
    pose proof (branches_nf l G [] bn up st brs bn1 up1 st1 (fun x Hx => match Hx with end) E) as A.
    inversion H; subst. cbn [has_format]. rewrite Qu. cbn [orb]. apply any_false_merge. exact A.
  - (* TOr *)
    assert (forall x, In x l -> nf_build x) as G.
    { intros x Hx. apply GB; [pose proof (tsize_in x l Hx); lia|eapply nf_all_in; eauto]. }
    match type of H with match ?X with _ => _ end = _ => destruct X as [[[[brs bn1] up1] st1]|e] eqn:E; [|discriminate] end.
    pose proof (branches_nf l G [] bn up st brs bn1 up1 st1 (fun x Hx => match Hx with end) E) as A.
    inversion H; subst. cbn [has_format]. rewrite Qu. cbn [orb]. apply any_false_or. exact A.
  - (* TCapture *)
    bdestruct H E. pose proof (GB t ltac:(lia) Hw MLeaf _ _ _ _ _ _ _ eq_refl E) as Q1. inversion H; subst. cbn [has_format]. rewrite Qu, Q1. reflexivity.
  - (* TSubx *)
    bdestruct H E. pose proof (GB t ltac:(lia) Hw MLeaf _ _ _ _ _ _ _ eq_refl E) as Q1. inversion H; subst. cbn [has_format]. rewrite Qu, Q1. reflexivity.
  - (* TIfElse *)
    apply andb_prop in Hw. destruct Hw as [Hw W3]. apply andb_prop in Hw. destruct Hw as [W1 W2].
    bdestruct H E1. bdestruct H E2. bdestruct H E3.
    pose proof (GB t1 ltac:(lia) W1 MLeaf _ _ _ _ _ _ _ eq_refl E1) as Q1.
    pose proof (GB t2 ltac:(lia) W2 MLeaf _ _ _ _ _ _ _ eq_refl E2) as Q2.
    pose proof (GB t3 ltac:(lia) W3 MLeaf _ _ _ _ _ _ _ eq_refl E3) as Q3.
    inversion H; subst. cbn [has_format]. rewrite Qu, Q1, Q2, Q3. reflexivity.
  - (* TScope *)
    bdestruct H E. pose proof (GB t ltac:(lia) Hw upm _ _ _ _ _ _ _ Qu E) as Q1. inversion H; subst. exact Q1.
  - (* TBlock *)
    bdestruct H E.
    match type of H with match ?X with _ => _ end = _ => destruct X as [[upm' up2]|e] eqn:EG; [|discriminate] end.
    inversion H; subst. cbn [has_format]. eapply reads_nf; [exact Qu|exact EG].
  - (* TBind *)
    destruct (bbind bn n0 (next_id st)); [|discriminate]. inversion H; subst. exact Qu.
  - (* TRead *)
    destruct (bfind tc bn n0) as [[b|id]|].
    + inversion H; subst. apply nf_builtin; exact Qu.
    + inversion H; subst. exact Qu.
    + destruct (ufind tc up n0) as [[[b|id] up3]|]; [| |discriminate]; inversion H; subst.
      * apply nf_builtin; exact Qu.
      * exact Qu.
  - (* TNop *) inversion H; subst. exact Qu.
  - (* TStar *)
    bdestruct H E. pose proof (GB t ltac:(lia) Hw MLeaf _ _ _ _ _ _ _ eq_refl E) as Q1. inversion H; subst. cbn [has_format]. rewrite Qu, Q1. reflexivity.
  - (* TPlus *)
    bdestruct H E. pose proof (GB t ltac:(lia) Hw MLeaf _ _ _ _ _ _ _ eq_refl E) as Q1. inversion H; subst. cbn [has_format]. rewrite Qu, Q1. reflexivity.
  - (* TAssert *)
    match type of H with match ?X with _ => _ end = _ => destruct X as [[[[pm bn1] up1] st1]|e] eqn:E; [|discriminate] end.
    inversion H; subst. exact Qu.
  - (* TEmptyList *) inversion H; subst. exact Qu.
  - (* TConst *) inversion H; subst. exact Qu.
  - (* TStr *) inversion H; subst. exact Qu.
  - (* TDebug *) inversion H; subst. exact Qu.
  - (* TBuiltin *) destruct b as [pos k|k]; cbn [build] in H; inversion H; subst; exact Qu.
Qed.

Theorem build_program_nf t m blks : nf_tree t = true -> build_program tc t = BOk (m, blks) -> has_format m = false.
Proof.
  intros W H. unfold build_program in H.
  destruct (build tc t MLeaf (mkbn [[]] true) UTop (mkbs 0%N [])) as [[[[m1 bn1] up1] st1]|e] eqn:E; [|discriminate].
  inversion H; subst. apply (build_nf (tsize t) t (le_n _) W MLeaf _ _ _ _ _ _ _ eq_refl E).
Qed.
End B.
