(* Semantics of the core vocabulary on a single stack: what each word of
   init.cc does to the values near the top of the stack.  Mirrors
   builtin-shf.cc, builtin-cst.cc, value-cst.cc, value-str.cc, value-seq.cc,
   builtin-cmp.cc and the overload dispatch of overload.cc (selector match on
   the types near TOS).  No proofs in this file. *)
From Coq Require Import ZArith NArith List Bool.
From Dwgrep Require Import Radix Value.
Import ListNotations.
Local Open Scope Z_scope.

Module WordsM.

(* what is observed on stderr *)
Inductive soft := SErr | SWarn.

(* parameters observed on the implementation *)
Record params := mkparams {
  p_tc : tcodes;                 (* value_type codes *)
  p_rank : cdom -> N             (* address order of the constant domains *)
}.

Inductive word :=
| WDrop | WSwap | WDup | WOver | WRot
| WType | WPos
| WCast (d : cdom)               (* hex dec oct bin *)
| WPush (v : value)              (* builtin constants: true false T_CONST ... *)
| WAdd | WSub | WMul | WDiv | WMod
| WLength | WValue | WElem | WRelem
| WApply
| WDropBelow (n : nat).

Inductive predword :=
| PWEq | PWLt | PWGt             (* builtin-cmp.cc *)
| PWEmpty | PWFind | PWStarts | PWEnds
| PWMatch.                       (* regex: not modelled, see trusted base *)

Inductive pres := PYes | PNo | PFail.

Definition pnot (r : pres) : pres := match r with PYes => PNo | PNo => PYes | PFail => PFail end.
Definition pand (a b : pres) : pres :=
  match a, b with PFail, _ | _, PFail => PFail | PYes, PYes => PYes | _, _ => PNo end.
Definition por (a b : pres) : pres :=
  match a, b with PFail, _ | _, PFail => PFail | PNo, PNo => PNo | _, _ => PYes end.
Definition pres_of_bool (b : bool) : pres := if b then PYes else PNo.

(* result of running a word on one input stack *)
Inductive wres :=
| WAbort                                        (* an exception escapes next (): hard error *)
| WOut (outs : list stack) (errs : list soft).  (* zero or more stacks, diagnostics first *)

Definition in_range (z : Z) : bool := (- 9223372036854775808 <=? z) && (z <? 18446744073709551616).

(* simple_arith_op of value-cst.cc: warning for named operands, result domain,
   error -> no result.  Exactness of the arithmetic itself is property C08. *)
Definition arith (f : Z -> Z -> option Z) (a : Z) (da : cdom) (b : Z) (db : cdom) (rest : stack) : wres :=
  let warn := if dom_arith da && dom_arith db then [] else [SWarn] in
  let d := if dom_plain da then db else da in
  match f a b with
  | Some r => if in_range r then WOut [VCst r d 0 :: rest] warn else WOut [] (warn ++ [SErr])
  | None => WOut [] (warn ++ [SErr])
  end.

Definition number (l : list value) : list value :=
  (fix go (l : list value) (i : N) : list value :=
     match l with [] => [] | x :: t => set_pos x i :: go t (i + 1)%N end) l 0%N.

Definition no_overload : wres := WOut [] [SErr].

(* ---- comparison (builtin-cmp.cc, value::cmp) ---- *)

Definition ckey (P : params) (d : cdom) : N := if dom_arith d then p_rank P DDec else p_rank P d.

Definition cst_cmp (P : params) (x : Z) (d : cdom) (y : Z) (e : cdom) : comparison :=
  match N.compare (ckey P d) (ckey P e) with Eq => Z.compare x y | o => o end.

Fixpoint bytes_cmp (a b : bytes) : comparison :=
  match a, b with
  | [], [] => Eq
  | [], _ :: _ => Lt
  | _ :: _, [] => Gt
  | x :: a', y :: b' => match N.compare x y with Eq => bytes_cmp a' b' | o => o end
  end.

Fixpoint types_cmp (P : params) (a b : list value) : comparison :=
  match a, b with
  | x :: a', y :: b' =>
    match N.compare (tcode (p_tc P) x) (tcode (p_tc P) y) with Eq => types_cmp P a' b' | o => o end
  | _, _ => Eq
  end.

(* value::cmp on two values of the same type; None = cmp_result::fail *)
Fixpoint vcmp (P : params) (a b : value) {struct a} : option comparison :=
  match a, b with
  | VCst x d _, VCst y e _ => Some (cst_cmp P x d y e)
  | VStr s _, VStr t _ => Some (bytes_cmp s t)
  | VSeq l _, VSeq m _ =>
    match Nat.compare (length l) (length m) with
    | Eq =>
      match types_cmp P l m with
      | Eq =>
        (fix go (l m : list value) {struct l} : option comparison :=
           match l, m with
           | x :: l', y :: m' => match vcmp P x y with Some Eq => go l' m' | r => r end
           | _, _ => Some Eq
           end) l m
      | o => Some o
      end
    | o => Some o
    end
  | _, _ => None
  end.

(* comparison_result: A below TOS, B on TOS; relation of A to B *)
Definition cmp_top (P : params) (a b : value) : option comparison :=
  let ta := tcode (p_tc P) b in
  let tb := tcode (p_tc P) a in
  if N.ltb ta tb then Some Lt else if N.ltb tb ta then Some Gt else vcmp P a b.

Definition is_str (v : value) := match v with VStr _ _ => true | _ => false end.
Definition is_seq (v : value) := match v with VSeq _ _ => true | _ => false end.

Fixpoint prefix_b {A} (eqb : A -> A -> bool) (needle hay : list A) : bool :=
  match needle, hay with
  | [], _ => true
  | x :: n', y :: h' => eqb x y && prefix_b eqb n' h'
  | _ :: _, [] => false
  end.

(* std::string::find / std::search: needle occurs as a contiguous infix
   (an empty needle is found in anything, including an empty haystack) *)
Fixpoint infix_b {A} (eqb : A -> A -> bool) (needle hay : list A) : bool :=
  match hay with
  | [] => match needle with [] => true | _ => false end
  | _ :: h' => prefix_b eqb needle hay || infix_b eqb needle h'
  end.

Definition suffix_b {A} (eqb : A -> A -> bool) (needle hay : list A) : bool :=
  prefix_b eqb (rev needle) (rev hay).

Definition velem_eqb (P : params) (a b : value) : bool :=
  match vcmp P a b with Some Eq => true | _ => false end.

(* predicates: (result, diagnostics); None = an exception escapes *)
Definition run_pred (P : params) (w : predword) (stk : stack) : option (pres * list soft) :=
  match w with
  | PWEq | PWLt | PWGt =>
    match stk with
    | b :: a :: _ =>
      match cmp_top P a b with
      | None => Some (PFail, [SErr])
      | Some c =>
        Some (pres_of_bool (match w, c with PWEq, Eq | PWLt, Lt | PWGt, Gt => true | _, _ => false end), [])
      end
    | _ => None                                         (* stack::get throws *)
    end
  | PWEmpty =>
    match stk with
    | VStr s _ :: _ => Some (pres_of_bool (match s with [] => true | _ => false end), [])
    | VSeq l _ :: _ => Some (pres_of_bool (match l with [] => true | _ => false end), [])
    | _ => Some (PFail, [SErr])                         (* no overload: show_error, fail *)
    end
  | PWFind =>
    match stk with
    | VStr n _ :: VStr h _ :: _ => Some (pres_of_bool (infix_b N.eqb n h), [])
    | VSeq n _ :: VSeq h _ :: _ => Some (pres_of_bool (infix_b (velem_eqb P) n h), [])
    | _ => Some (PFail, [SErr])
    end
  | PWStarts =>
    match stk with
    | VStr n _ :: VStr h _ :: _ => Some (pres_of_bool (prefix_b N.eqb n h), [])
    | VSeq n _ :: VSeq h _ :: _ => Some (pres_of_bool (prefix_b (velem_eqb P) n h), [])
    | _ => Some (PFail, [SErr])
    end
  | PWEnds =>
    match stk with
    | VStr n _ :: VStr h _ :: _ => Some (pres_of_bool (suffix_b N.eqb n h), [])
    | VSeq n _ :: VSeq h _ :: _ => Some (pres_of_bool (suffix_b (velem_eqb P) n h), [])
    | _ => Some (PFail, [SErr])
    end
  | PWMatch => Some (PFail, [SErr])                     (* regex oracle not modelled *)
  end.

Definition zdiv (a b : Z) : option Z := if b =? 0 then None else Some (a / b).
Definition zmod (a b : Z) : option Z := if b =? 0 then None else Some (a mod b).

(* exec words *)
Definition run_word (P : params) (w : word) (stk : stack) : wres :=
  match w with
  | WDrop => match stk with _ :: r => WOut [r] [] | _ => WAbort end
  | WSwap => match stk with a :: b :: r => WOut [b :: a :: r] [] | _ => WAbort end
  | WDup => match stk with a :: r => WOut [a :: a :: r] [] | _ => WAbort end
  | WOver => match stk with a :: b :: r => WOut [b :: a :: b :: r] [] | _ => WAbort end
  | WRot => match stk with a :: b :: c :: r => WOut [c :: a :: b :: r] [] | _ => WAbort end
  | WType => match stk with a :: r => WOut [VCst (Z.of_N (tcode (p_tc P) a)) DSlot 0 :: r] [] | _ => WAbort end
  | WPos => match stk with a :: r => WOut [VCst (Z.of_N (vpos a)) DPos 0 :: r] [] | _ => WAbort end
  | WCast d =>
    match stk with
    | VCst z _ _ :: r => WOut [VCst z d 0 :: r] []
    | _ :: _ => WOut [] [SErr]
    | [] => WAbort
    end
  | WPush v => WOut [v :: stk] []
  | WAdd =>
    match stk with
    | VCst b db _ :: VCst a da _ :: r => arith (fun x y => Some (x + y)) a da b db r
    | VStr b _ :: VStr a _ :: r => WOut [VStr (a ++ b) 0 :: r] []
    | VSeq b _ :: VSeq a _ :: r => WOut [VSeq (a ++ b) 0 :: r] []
    | _ => no_overload
    end
  | WSub => match stk with VCst b db _ :: VCst a da _ :: r => arith (fun x y => Some (x - y)) a da b db r | _ => no_overload end
  | WMul => match stk with VCst b db _ :: VCst a da _ :: r => arith (fun x y => Some (x * y)) a da b db r | _ => no_overload end
  | WDiv => match stk with VCst b db _ :: VCst a da _ :: r => arith zdiv a da b db r | _ => no_overload end
  | WMod => match stk with VCst b db _ :: VCst a da _ :: r => arith zmod a da b db r | _ => no_overload end
  | WLength =>
    match stk with
    | VStr s _ :: r => WOut [VCst (Z.of_nat (length s)) DDec 0 :: r] []
    | VSeq l _ :: r => WOut [VCst (Z.of_nat (length l)) DDec 0 :: r] []
    | _ => no_overload
    end
  | WValue => match stk with VCst z _ _ :: r => WOut [VCst z DDec 0 :: r] [] | _ => no_overload end
  | WElem =>
    match stk with
    | VStr s _ :: r => WOut (map (fun v => v :: r) (number (map (fun c => VStr [c] 0) s))) []
    | VSeq l _ :: r => WOut (map (fun v => v :: r) (number l)) []
    | _ => no_overload
    end
  | WRelem =>
    match stk with
    | VStr s _ :: r => WOut (map (fun v => v :: r) (number (map (fun c => VStr [c] 0) (rev s)))) []
    | VSeq l _ :: r => WOut (map (fun v => v :: r) (number (rev l))) []
    | _ => no_overload
    end
  | WApply => WAbort                                   (* handled by the engine (op_apply) *)
  | WDropBelow n =>
    match stk with
    | tos :: r => if Nat.leb n (length r) then WOut [tos :: skipn n r] [] else WAbort
    | [] => WAbort
    end
  end.

End WordsM.
Export WordsM.
