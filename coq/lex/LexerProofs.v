(* The scanner model is total: it never runs out of fuel, every step consumes
   at least one byte and never more than there is. *)
From Coq Require Import ZArith NArith List Bool Arith Lia.
From Dwgrep Require Import Radix Escape Lexer.
Import ListNotations.
Local Open Scope N_scope.

(* ---- longest match ---- *)
Lemma best_ge rs : forall cur, (fst cur <= fst (best rs cur))%nat /\ Forall (fun r => (fst r <= fst (best rs cur))%nat) rs.
Proof.
  induction rs as [|r rs IH]; intros cur; cbn [best]; [split; [lia|constructor]|].
  destruct (IH (if Nat.ltb (fst cur) (fst r) then r else cur)) as [A B].
  destruct (Nat.ltb_spec (fst cur) (fst r)) as [L|L]; (split; [lia|constructor; [lia|exact B]]).
Qed.

Lemma best_in rs : forall cur, best rs cur = cur \/ In (best rs cur) rs.
Proof.
  induction rs as [|r rs IH]; intros cur; cbn [best]; [left; reflexivity|].
  destruct (IH (if Nat.ltb (fst cur) (fst r) then r else cur)) as [E|I].
  - rewrite E. destruct (Nat.ltb (fst cur) (fst r)); [right; left; reflexivity|left; reflexivity].
  - right; right; exact I.
Qed.

(* every step in INITIAL consumes at least one byte *)
Theorem match_initial_progress c s : (1 <= fst (match_initial (c :: s)))%nat.
Proof.
  unfold match_initial.
  destruct (best (rules (c :: s)) (O, fun _ => ASkip)) as [n f] eqn:E.
  cbn [fst]. pose proof (best_ge (rules (c :: s)) (O, fun _ : bytes => ASkip)) as [_ F]. rewrite E in F. cbn [fst] in F.
  rewrite Forall_forall in F.
  destruct (N.eqb_spec c 10) as [->|NE].
  - assert (In (m_blank (10 :: s), fun _ : bytes => ASkip) (rules (10 :: s))) as I.
    { unfold rules. do 29 right. left. reflexivity. }
    apply F in I. cbn [fst] in I. unfold m_blank in I. cbn [span] in I. change (is_blank 10) with true in I. cbn iota in I. lia.
  - assert (In (m_any (c :: s), fun m : bytes => AInvalid (hd 0 m)) (rules (c :: s))) as I.
    { unfold rules. do 33 right. left. reflexivity. }
    apply F in I. cbn [fst] in I. unfold m_any in I. apply N.eqb_neq in NE. rewrite NE in I. exact I.
Qed.

(* ... and never more than there is *)
Lemma span_le p s : (span p s <= length s)%nat.
Proof. induction s as [|c s IH]; cbn; [lia|]. destruct (p c); lia. Qed.

Lemma is_prefix_length l : forall s, is_prefix l s = true -> (length l <= length s)%nat.
Proof.
  induction l as [|x l IH]; intros [|y s] H; cbn in *; try lia; try discriminate.
  apply andb_prop in H. destruct H as [_ H]. apply IH in H. lia.
Qed.

Lemma m_lit_le l s : (m_lit l s <= length s)%nat.
Proof. unfold m_lit. destruct (is_prefix l s) eqn:E; [apply is_prefix_length; exact E|lia]. Qed.

Lemma skipn_length_le {A} k (s : list A) : (length (skipn k s) <= length s)%nat.
Proof. rewrite skipn_length. lia. Qed.

Lemma m_ticks_le s : (m_ticks s <= length s)%nat.
Proof.
  unfold m_ticks. set (k := span (fun c => c =? 96) s).
  destruct (skipn k s) as [|c r] eqn:E; [lia|].
  assert (length (skipn k s) = (length s - k)%nat) as L by apply skipn_length.
  rewrite E in L. cbn [length] in L.
  assert (Nat.le (match c :: r with 91%N :: _ => S k | _ => O end) (S k)) as B.
  { destruct c as [|p]; [lia|]. repeat (destruct p as [p|p|]; try lia). }
  lia.
Qed.

Lemma m_id_le s : (m_id s <= length s)%nat.
Proof. unfold m_id. destruct s as [|c t]; [cbn; lia|]. destruct (is_idstart c); cbn [length]; [pose proof (span_le is_alnum t)|]; lia. Qed.
Lemma m_intbody_le s : (m_intbody s <= length s)%nat.
Proof. unfold m_intbody. destruct s as [|c t]; [cbn; lia|]. destruct (is_digit c); cbn [length]; [pose proof (span_le is_alnum t)|]; lia. Qed.
Lemma m_word_le s : (m_word s <= length s)%nat.
Proof.
  unfold m_word. destruct s as [|c t]; [cbn; lia|].
  pose proof (m_id_le t). pose proof (m_id_le (c :: t)). cbn [length] in *.
  destruct (is_wordprefix c); [|lia]. destruct (m_id t); lia.
Qed.
Lemma m_numword_le s : (m_numword s <= length s)%nat.
Proof.
  unfold m_numword. destruct s as [|c t]; [cbn; lia|]. pose proof (m_intbody_le t). cbn [length].
  destruct (is_qb c); [|lia]. destruct (m_intbody t); lia.
Qed.
Lemma m_int_le s : (m_int s <= length s)%nat.
Proof.
  unfold m_int. destruct s as [|c t]; [cbn; lia|].
  pose proof (m_intbody_le t). pose proof (m_intbody_le (c :: t)). cbn [length] in *.
  destruct c as [|p]; [lia|].
  repeat (destruct p as [p|p|]; try lia). destruct (m_intbody t); lia.
Qed.
Lemma m_linecomment_le s : (m_linecomment s <= length s)%nat.
Proof.
  unfold m_linecomment. destruct s as [|c t]; [cbn; lia|].
  pose proof (span_le (fun c => negb (c =? 10)) t).
  destruct (N.eqb_spec c 35) as [->|N1]; [cbn [length]; lia|].
  destruct (N.eqb_spec c 47) as [->|N2].
  - destruct t as [|d t']; [cbn; lia|]. pose proof (span_le (fun c => negb (c =? 10)) t').
    destruct (N.eqb_spec d 47) as [->|N3]; [cbn [length]; lia|].
    destruct d as [|p]; [cbn; lia|]. repeat (destruct p as [p|p|]; try (cbn; lia)); try congruence.
  - destruct c as [|p]; [cbn; lia|]. repeat (destruct p as [p|p|]; try (cbn; lia)); try congruence.
Qed.
Lemma find_close_le s : forall n, find_close s = Some n -> (n <= length s)%nat.
Proof.
  induction s as [|c t IH]; intros n H; [discriminate|].
  cbn [find_close] in H.
  assert (forall m, find_close t = Some m -> (S m <= length (c :: t))%nat) as G by (intros m Hm; apply IH in Hm; cbn; lia).
  destruct (N.eqb_spec c 42) as [->|NE].
  - destruct t as [|d t']; [cbn in H; discriminate|].
    destruct (N.eqb_spec d 47) as [->|ND]; [inversion H; cbn; lia|].
    destruct (find_close (d :: t')) as [m|] eqn:Q.
    + assert (n = S m) as ->.
      { destruct d as [|p]; [congruence|]. repeat (destruct p as [p|p|]; try congruence). }
      apply G. reflexivity.
    + destruct d as [|p]; [discriminate|]. repeat (destruct p as [p|p|]; try discriminate); try congruence.
  - destruct (find_close t) as [m|] eqn:Q.
    + assert (n = S m) as ->.
      { destruct c as [|p]; [congruence|]. repeat (destruct p as [p|p|]; try congruence). }
      apply G. reflexivity.
    + destruct c as [|p]; [discriminate|]. repeat (destruct p as [p|p|]; try discriminate); try congruence.
Qed.

Lemma m_blockcomment_le s : (m_blockcomment s <= length s)%nat.
Proof.
  unfold m_blockcomment.
  destruct s as [|c t]; [cbn; lia|].
  destruct t as [|d t'].
  { destruct c as [|p]; [cbn; lia|]. repeat (destruct p as [p|p|]; try (cbn; lia)). }
  assert (forall n, find_close t' = Some n -> (S (S n) <= length (c :: d :: t'))%nat) as G.
  { intros n Hn. apply find_close_le in Hn. cbn. lia. }
  destruct (find_close t') as [n|] eqn:Q.
  - specialize (G n eq_refl).
    destruct c as [|p]; [cbn; lia|]. repeat (destruct p as [p|p|]; try (cbn; lia));
    (destruct d as [|q]; [cbn; lia|]; repeat (destruct q as [q|q|]; try (cbn; lia)); exact G).
  - destruct c as [|p]; [cbn; lia|]. repeat (destruct p as [p|p|]; try (cbn; lia));
    (destruct d as [|q]; [cbn; lia|]; repeat (destruct q as [q|q|]; try (cbn; lia))).
Qed.

Lemma m_op_le s : (m_op s <= length s)%nat.
Proof.
  unfold m_op. destruct s as [|c t]; [cbn; lia|].
  pose proof (span_le is_opchar t). pose proof (span_le is_opchar (c :: t)). cbn [length] in *.
  destruct (is_qb c); [|lia]. destruct (span is_opchar t); lia.
Qed.
Lemma m_any_le s : (m_any s <= length s)%nat.
Proof. unfold m_any. destruct s as [|c t]; [cbn; lia|]. destruct (c =? 10); cbn; lia. Qed.
Lemma m_blank_le s : (m_blank s <= length s)%nat.
Proof. apply span_le. Qed.

Lemma rules_bounded s : Forall (fun r => (fst r <= length s)%nat) (rules s).
Proof.
  unfold rules.
  repeat (constructor; [cbn [fst];
    first [apply m_lit_le | apply m_ticks_le | apply m_word_le | apply m_numword_le | apply m_int_le
          | apply m_blank_le | apply m_linecomment_le | apply m_blockcomment_le | apply m_op_le | apply m_any_le]|]).
  constructor.
Qed.

Theorem match_initial_bounded s : (fst (match_initial s) <= length s)%nat.
Proof.
  unfold match_initial.
  destruct (best (rules s) (O, fun _ => ASkip)) as [n f] eqn:E. cbn [fst].
  destruct (best_in (rules s) (O, fun _ : bytes => ASkip)) as [B|B]; rewrite E in B.
  - inversion B. lia.
  - pose proof (rules_bounded s) as F. rewrite Forall_forall in F. apply F in B. exact B.
Qed.

(* ---- the string scanner hands back a suffix no longer than what it was given ---- *)
Definition mode_ok (N : nat) (m : smode) : Prop :=
  match m with MCont back => (length back <= N)%nat | _ => True end.

Ltac scan_leaf IH :=
  match goal with
  | H : SDone _ _ = SDone _ _ |- _ => inversion H; subst; clear H; cbn [length] in *; lia
  | H : SErr _ = SDone _ _ |- _ => discriminate H
  | H : (if ?b then _ else _) = SDone _ _ |- _ => destruct b eqn:?; scan_leaf IH
  | H : match ?x with _ => _ end = SDone _ _ |- _ => destruct x; scan_leaf IH
  | H : str_scan _ _ _ = SDone _ _ |- _ =>
    eapply IH in H; [exact H | cbn [length] in *; lia | cbn [mode_ok length] in *; first [exact I | lia]]
  end.

Lemma str_scan_bounded N : forall k s, (length s <= k)%nat -> (k <= N)%nat ->
  forall m f ps rest, mode_ok N m -> str_scan m f s = SDone ps rest -> (length rest <= N)%nat.
Proof.
  induction k as [|k IH]; intros s Hk HN m f ps rest Hm H.
  - destruct s; [|cbn in Hk; lia].
    destruct m; cbn [str_scan flush f_pieces] in H; cbn [mode_ok] in Hm; scan_leaf IH.
  - assert (IH' : forall s, (length s <= k)%nat -> forall m f ps rest, mode_ok N m ->
              str_scan m f s = SDone ps rest -> (length rest <= N)%nat).
    { intros s0 L0. apply (IH s0 L0). lia. }
    clear IH.
    destruct s as [|c t]; destruct m; cbn [str_scan flush f_pieces] in H; cbn [mode_ok length] in *; scan_leaf IH'.
Qed.


(* ---- the scanner never runs out of fuel ---- *)

Lemma lex_step fu c t acc :
  lex (S fu) (c :: t) acc =
    (let '(n, a) := match_initial (c :: t) in
      let rest := skipn n (c :: t) in
      match a with
      | AToken t => lex fu rest (acc ++ [t])
      | ASkip => match n with O => LexFuel | _ => lex fu rest acc end
      | AInvalid c => LexError acc (EInvalidChar c)
      | AString raw =>
        match str_scan MBody (new_fmt raw) rest with
        | SDone ps rest' => lex fu rest' (acc ++ [TStr ps])
        | SErr e => LexError acc e
        end
      end).
Proof. reflexivity. Qed.


Lemma lex_enough_fuel : forall fuel s acc, (length s < fuel)%nat -> lex fuel s acc <> LexFuel.
Proof.
  induction fuel as [|fu IH]; intros s acc L; [lia|].
  destruct s as [|c t]; [cbn; discriminate|].
  pose proof (match_initial_progress c t) as P. pose proof (match_initial_bounded (c :: t)) as B.
  change (lex (S fu) (c :: t) acc) with
    (let '(n, a) := match_initial (c :: t) in
      let rest := skipn n (c :: t) in
      match a with
      | AToken t => lex fu rest (acc ++ [t])
      | ASkip => match n with O => LexFuel | _ => lex fu rest acc end
      | AInvalid c => LexError acc (EInvalidChar c)
      | AString raw =>
        match str_scan MBody (new_fmt raw) rest with
        | SDone ps rest' => lex fu rest' (acc ++ [TStr ps])
        | SErr e => LexError acc e
        end
      end).
  destruct (match_initial (c :: t)) as [n a]. cbn [fst] in P, B. cbn zeta.
  assert (length (skipn n (c :: t)) < fu)%nat as LR by (rewrite skipn_length; cbn [length] in *; lia).
  destruct a as [tk| |raw|ch].
  - apply IH. exact LR.
  - destruct n; [lia|]. apply IH. exact LR.
  - destruct (str_scan MBody (new_fmt raw) (skipn n (c :: t))) as [ps rest'|e] eqn:E; [|discriminate].
    apply IH.
    pose proof (str_scan_bounded (length (skipn n (c :: t))) _ _ (le_n _) (le_n _) MBody _ _ _ I E). lia.
  - discriminate.
Qed.

Theorem lex_total s : lex_all s <> LexFuel.
Proof. unfold lex_all. apply lex_enough_fuel. lia. Qed.

(* every byte string is a token list, or tokens followed by one of the lexical errors *)
Theorem lex_classifies s : (exists ts, lex_all s = LexOk ts) \/ (exists ts e, lex_all s = LexError ts e).
Proof.
  pose proof (lex_total s) as T. destruct (lex_all s) as [ts|ts e|]; [left; eauto|right; eauto|congruence].
Qed.

Lemma lex_ends_with_eof : forall fuel s acc ts, lex fuel s acc = LexOk ts -> exists ts', ts = ts' ++ [TEOF].
Proof.
  induction fuel as [|fu IH]; intros s acc ts H; [discriminate|].
  destruct s as [|c t].
  - cbn [lex] in H. inversion H. eauto.
  - rewrite lex_step in H. destruct (match_initial (c :: t)) as [n a]. cbn zeta in H.
    destruct a as [tk| |raw|ch]; try discriminate.
    + eapply IH; eauto.
    + destruct n; [discriminate|]. eapply IH; eauto.
    + destruct (str_scan MBody (new_fmt raw) (skipn n (c :: t))) as [ps rest'|e]; [|discriminate]. eapply IH; eauto.
Qed.

Lemma body_plain c t f : c <> 34 -> c <> 92 -> c <> 37 -> str_scan MBody f (c :: t) = str_scan MBody (add_lit f [c]) t.
Proof.
  intros A B C. apply N.eqb_neq in A, B, C.
  change (str_scan MBody f (c :: t)) with
    (if c =? 92 then
        match t with
        | [] => str_scan MBody (add_lit f [c]) t
        | d :: t' =>
          let other := if f_raw f then str_scan MBody (add_lit f [c; d]) t'
                       else str_scan MBody (add_lit f (simple_escape d)) t' in
          if d =? 120 then
            match t' with
            | h1 :: h2 :: t'' =>
              if is_hex h1 && is_hex h2
              then str_scan MBody (add_lit f [(hex_val h1 * 16 + hex_val h2) mod 256]) t''
              else other
            | _ => other
            end
          else if (48 <=? d) && (d <=? 51) then
            match t' with
            | o1 :: t'' =>
              if is_oct o1 then
                match t'' with
                | o2 :: t3 =>
                  if is_oct o2
                  then str_scan MBody (add_lit f [((d - 48) * 64 + (o1 - 48) * 8 + (o2 - 48)) mod 256]) t3
                  else str_scan MBody (add_lit f [(d - 48) * 8 + (o1 - 48)]) t''
                | [] => str_scan MBody (add_lit f [(d - 48) * 8 + (o1 - 48)]) t''
                end
              else str_scan MBody (add_lit f [d - 48]) t'
            | [] => str_scan MBody (add_lit f [d - 48]) t'
            end
          else other
        end
      else if c =? 34 then
        match t with
        | d :: t' => if d =? 92 then str_scan (MCont t) f t' else SDone (f_pieces (flush f)) t
        | [] => SDone (f_pieces (flush f)) t
        end
      else if c =? 37 then
        match t with
        | d :: t' =>
          if d =? 37 then str_scan MBody (add_lit f [37]) t'
          else if d =? 40 then str_scan MEmb (set_instr (flush f) false) t'
          else if is_directive d then str_scan MBody (push_piece (flush f) (PDir d)) t'
          else str_scan MBody (add_lit f [c]) t
        | [] => str_scan MBody (add_lit f [c]) t
        end
      else str_scan MBody (add_lit f [c]) t).
  rewrite A, B, C. reflexivity.
Qed.

Lemma body_unterminated : forall s f, Forall (fun c => c <> 34 /\ c <> 92 /\ c <> 37) s -> str_scan MBody f s = SErr EUnterminated.
Proof.
  induction s as [|c t IH]; intros f F; [reflexivity|].
  inversion F as [|? ? [A [B C]] Ft]; subst. rewrite body_plain by assumption. apply IH. exact Ft.
Qed.

(* a string opened and never closed is rejected, whatever precedes it on the
   token level being irrelevant: here, at the start of the input *)
Theorem unterminated_string_rejected s : Forall (fun c => c <> 34 /\ c <> 92 /\ c <> 37) s ->
  lex_all (34 :: s) = LexError [] EUnterminated.
Proof.
  intros F. unfold lex_all. cbn [length]. rewrite lex_step.
  change (match_initial (34 :: s)) with (match_initial (34 :: s)).
  assert (M : match_initial (34 :: s) = (1%nat, AString false)).
  { unfold match_initial, rules.
    assert (m_word (34 :: s) = O) as -> by reflexivity.
    assert (m_numword (34 :: s) = O) as -> by reflexivity.
    assert (m_int (34 :: s) = O) as -> by reflexivity.
    assert (m_ticks (34 :: s) = O) as -> by reflexivity.
    assert (m_blank (34 :: s) = O) as -> by reflexivity.
    assert (m_linecomment (34 :: s) = O) as -> by reflexivity.
    assert (m_blockcomment (34 :: s) = O) as ->.
    { unfold m_blockcomment. reflexivity. }
    assert (m_op (34 :: s) = O) as -> by reflexivity.
    reflexivity. }
  rewrite M. cbn zeta. cbn [skipn]. rewrite body_unterminated by exact F. reflexivity.
Qed.
