(* What the CLI prints for a string nested in a sequence reads back, through
   the lexer, as the same bytes -- hence different strings never print alike. *)
From Coq Require Import ZArith NArith List Bool Lia.
From Dwgrep Require Import Radix Escape.
Import ListNotations.
Local Open Scope N_scope.

(* unfolding equations of the scanner for the shapes dump_charp produces *)
Lemma lex_plain c t raw acc :
  (c =? 92) = false -> (c =? 34) = false -> (c =? 37) = false ->
  lex_body SBody raw acc (c :: t) = lex_body SBody raw (acc ++ [c]) t.
Proof. intros H1 H2 H3. cbn [lex_body]. rewrite H1, H2, H3. reflexivity. Qed.

Lemma lex_simple d t acc :
  (d =? 120) = false -> ((48 <=? d) && (d <=? 51)) = false ->
  lex_body SBody false acc (92 :: d :: t) = lex_body SBody false (acc ++ simple_escape d) t.
Proof. intros H1 H2. cbn [lex_body]. change (92 =? 92) with true. cbn iota. rewrite H1, H2. reflexivity. Qed.

Lemma lex_hex h1 h2 t raw acc :
  is_hex h1 = true -> is_hex h2 = true ->
  lex_body SBody raw acc (92 :: 120 :: h1 :: h2 :: t)
  = lex_body SBody raw (acc ++ [(hex_val h1 * 16 + hex_val h2) mod 256]) t.
Proof.
  intros H1 H2. cbn [lex_body]. change (92 =? 92) with true. change (120 =? 120) with true. cbn iota.
  rewrite H1, H2. reflexivity.
Qed.

Lemma lex_percent t raw acc :
  lex_body SBody raw acc (37 :: 37 :: t) = lex_body SBody raw (acc ++ [37]) t.
Proof. reflexivity. Qed.

Lemma lex_close raw acc rest :
  match rest with 92 :: _ => False | _ => True end ->
  lex_body SBody raw acc (34 :: rest) = LexLit acc rest.
Proof.
  intros H. cbn [lex_body]. change (34 =? 92) with false. change (34 =? 34) with true. cbn iota.
  destruct rest as [|d t]; [reflexivity|].
  destruct (N.eqb_spec d 92) as [->|_]; [contradiction|reflexivity].
Qed.

(* hex digits: a finite sweep, lifted *)
Lemma hex_digit_sweep :
  forallb (fun d => is_hex (digit_char d) && (hex_val (digit_char d) =? d)) (map N.of_nat (seq 0 16)) = true.
Proof. vm_compute. reflexivity. Qed.

Lemma hex_digit d : d < 16 -> is_hex (digit_char d) = true /\ hex_val (digit_char d) = d.
Proof.
  intros H. pose proof hex_digit_sweep as S. rewrite forallb_forall in S.
  assert (In d (map N.of_nat (seq 0 16))) as I.
  { apply in_map_iff. exists (N.to_nat d). split; [apply N2Nat.id|]. apply in_seq. lia. }
  apply S in I. apply andb_prop in I. destruct I as [I1 I2]. apply N.eqb_eq in I2. auto.
Qed.

(* one byte: the scanner consumes exactly what dump_charp wrote for it and
   appends exactly that byte *)
Lemma esc_step c tail acc : c < 256 ->
  lex_body SBody false acc (esc_byte c ++ tail) = lex_body SBody false (acc ++ [c]) tail.
Proof.
  intros Hc. unfold esc_byte.
  destruct (N.eqb_spec c 34) as [->|N34]; [reflexivity|].
  destruct (N.eqb_spec c 92) as [->|N92]; [reflexivity|].
  destruct (N.eqb_spec c 37) as [->|N37]; [reflexivity|].
  destruct (N.eqb_spec c 7) as [->|N7]; [reflexivity|].
  destruct (N.eqb_spec c 8) as [->|N8]; [reflexivity|].
  destruct (N.eqb_spec c 9) as [->|N9]; [reflexivity|].
  destruct (N.eqb_spec c 10) as [->|N10]; [reflexivity|].
  destruct (N.eqb_spec c 11) as [->|N11]; [reflexivity|].
  destruct (N.eqb_spec c 12) as [->|N12]; [reflexivity|].
  destruct (N.eqb_spec c 13) as [->|N13]; [reflexivity|].
  destruct (isprint c) eqn:P.
  - cbn [app]. apply lex_plain; apply N.eqb_neq; assumption.
  - cbn [app].
    assert (c / 16 < 16) as D1 by (apply N.div_lt_upper_bound; lia).
    assert (c mod 16 < 16) as D2 by (apply N.mod_lt; lia).
    destruct (hex_digit _ D1) as [A1 A2]. destruct (hex_digit _ D2) as [B1 B2].
    rewrite lex_hex by assumption. rewrite A2, B2.
    replace ((c / 16 * 16 + c mod 16) mod 256) with c; [reflexivity|].
    pose proof (N.div_mod c 16 ltac:(lia)) as DM.
    rewrite N.mod_small; lia.
Qed.

Lemma esc_body_read s : forall acc tail, Forall (fun c => c < 256) s ->
  lex_body SBody false acc (esc_body s ++ tail) = lex_body SBody false (acc ++ s) tail.
Proof.
  induction s as [|c s IH]; intros acc tail F.
  - cbn. rewrite app_nil_r. reflexivity.
  - inversion F as [|? ? Hc Fs]; subst. unfold esc_body in *. cbn [flat_map]. rewrite <- app_assoc.
    rewrite esc_step by assumption. rewrite IH by assumption. rewrite <- app_assoc. reflexivity.
Qed.

(* what follows the literal in the CLI's output is `,`, `]` or a newline --
   anything but a backslash (which would start a string continuation) *)
Definition no_continuation (rest : bytes) : Prop := match rest with 92 :: _ => False | _ => True end.

Theorem escape_roundtrip s rest : Forall (fun c => c < 256) s -> no_continuation rest ->
  lex_string (esc s ++ rest) = Some (LexLit s rest).
Proof.
  intros F R. unfold esc, lex_string. cbn [app]. f_equal.
  rewrite <- app_assoc. rewrite esc_body_read by assumption. cbn [app]. apply lex_close. exact R.
Qed.

Theorem escape_injective s1 s2 :
  Forall (fun c => c < 256) s1 -> Forall (fun c => c < 256) s2 -> esc s1 = esc s2 -> s1 = s2.
Proof.
  intros F1 F2 E.
  pose proof (escape_roundtrip s1 [] F1 I) as R1. pose proof (escape_roundtrip s2 [] F2 I) as R2.
  rewrite E in R1. rewrite R1 in R2. congruence.
Qed.

(* the rendering never contains a raw newline or NUL, so one value stays on one line *)
Lemma esc_byte_clean c : c < 256 -> Forall (fun b => 32 <= b <= 126) (esc_byte c).
Proof.
  intros Hc. unfold esc_byte.
  repeat match goal with |- context [if ?c =? ?k then _ else _] => destruct (N.eqb_spec c k) as [->|?] ;
    [repeat constructor; lia|] end.
  destruct (isprint c) eqn:P.
  - unfold isprint in P. apply andb_prop in P. destruct P as [P1 P2]. apply N.leb_le in P1, P2. repeat constructor; lia.
  - assert (c / 16 < 16) as D1 by (apply N.div_lt_upper_bound; lia).
    assert (c mod 16 < 16) as D2 by (apply N.mod_lt; lia).
    assert (forall d, d < 16 -> 32 <= digit_char d <= 126) as DC.
    { intros d Hd. unfold digit_char. destruct (N.ltb_spec d 10); lia. }
    repeat constructor; try lia; apply DC; assumption.
Qed.

Theorem esc_printable s : Forall (fun c => c < 256) s -> Forall (fun b => 32 <= b <= 126) (esc s).
Proof.
  intros F. unfold esc. constructor; [lia|]. apply Forall_app. split; [|repeat constructor; lia].
  unfold esc_body. induction F as [|c s Hc F IH]; cbn [flat_map]; [constructor|].
  apply Forall_app. split; [apply esc_byte_clean; assumption|exact IH].
Qed.
