(* Model of parse_int (libzwerg/parser.yy): how an integer literal is read.
   std::stoull is idealised as read_digits + a range check. *)
From Coq Require Import ZArith NArith List Bool.
From Dwgrep Require Import Radix Value.
Import ListNotations.
Local Open Scope N_scope.

Module ParseIntM.

Inductive pres := PInt (z : Z) (d : cdom) | PInvalid | POutOfRange.

Definition is_x (c : N) := (c =? 120) || (c =? 88).     (* x X *)
Definition is_b (c : N) := (c =? 98) || (c =? 66).      (* b B *)
Definition is_o (c : N) := (c =? 111) || (c =? 79).     (* o O *)

(* base and domain from the prefix; returns the digits *)
Definition split_prefix (s : bytes) : N * cdom * bytes :=
  match s with
  | 48 :: c :: (_ :: _) as rest =>
    if is_x c then (16, DHex, rest)
    else if is_b c then (2, DBin, rest)
    else if is_o c then (8, DOct, rest)
    else (8, DOct, c :: rest)
  | 48 :: (_ :: _) as rest => (8, DOct, rest)
  | _ => (10, DDec, s)
  end.

Definition parse_int (s : bytes) : pres :=
  let '(neg, body) := match s with 45 :: r => (true, r) | _ => (false, s) end in
  let '(base, dom, digs) := split_prefix body in
  match digs with
  | [] => PInvalid
  | _ =>
    match read_digits base digs 0 with
    | None => PInvalid
    | Some v =>
      if 18446744073709551615 <? v then POutOfRange         (* stoull: out_of_range *)
      else if neg then
        (* ret = -ret on an unsigned value: throws above 2^63 *)
        if 9223372036854775808 <? v then POutOfRange else PInt (- Z.of_N v) dom
      else PInt (Z.of_N v) dom
    end
  end.

End ParseIntM.
Export ParseIntM.
