(* Table theorems over the vocabulary of named constants.  gen/VocTable.v is
   regenerated on every run (checks/C20.py) from what the library's vocabulary
   evaluates to now and from /usr/include/dwarf.h, elf.h; the theorems below
   are therefore re-checked against the current code.  The tables are finite:
   each statement is a boolean sweep evaluated by the kernel's VM and lifted
   to the quantified form. *)
From Coq Require Import ZArith NArith List Bool.
From Dwgrep Require Import VocTable.
Import ListNotations.

Fixpoint beq_bytes (a b : list N) : bool :=
  match a, b with
  | [], [] => true
  | x :: a', y :: b' => N.eqb x y && beq_bytes a' b'
  | _, _ => false
  end.

Lemma beq_bytes_eq a : forall b, beq_bytes a b = true <-> a = b.
Proof.
  induction a as [|x a IH]; intros [|y b]; cbn; split; intros H; try congruence; try discriminate.
  - apply andb_prop in H. destruct H as [H1 H2]. apply N.eqb_eq in H1. apply IH in H2. congruence.
  - inversion H; subst. rewrite N.eqb_refl. cbn. apply IH. reflexivity.
Qed.

Definition row := (list N * Z * N * list N)%type.
Definition r_word (r : row) := fst (fst (fst r)).
Definition r_val (r : row) := snd (fst (fst r)).
Definition r_dom (r : row) := snd (fst r).
Definition r_show (r : row) := snd r.

(* 1. every name the headers define and the vocabulary offers has the header's value *)
Definition hdr_ok (h : list N * Z) : bool :=
  forallb (fun r => negb (beq_bytes (r_word r) (fst h)) || Z.eqb (r_val r) (snd h)) voc_rows.

Theorem header_values_sweep : forallb hdr_ok hdr_rows = true.
Proof. vm_compute. reflexivity. Qed.

Theorem header_values : forall name v r,
  In (name, v) hdr_rows -> In r voc_rows -> r_word r = name -> r_val r = v.
Proof.
  intros name v r Hh Hr Hw. pose proof header_values_sweep as S. rewrite forallb_forall in S.
  specialize (S _ Hh). unfold hdr_ok in S. rewrite forallb_forall in S. specialize (S _ Hr).
  cbn [fst snd] in S. apply orb_prop in S. destruct S as [S|S].
  - apply negb_true_iff in S. assert (beq_bytes (r_word r) name = true) by (apply beq_bytes_eq; exact Hw). congruence.
  - apply Z.eqb_eq in S. exact S.
Qed.

(* 2. the rendering of every constant is itself a word, denoting a constant
      with the same value in the same domain *)
Definition reads_back (r : row) : bool :=
  existsb (fun r' => beq_bytes (r_word r') (r_show r) && Z.eqb (r_val r') (r_val r) && N.eqb (r_dom r') (r_dom r)) voc_rows.

Theorem rendering_reads_back_sweep : forallb reads_back voc_rows = true.
Proof. vm_compute. reflexivity. Qed.

Theorem rendering_reads_back : forall r, In r voc_rows ->
  exists r', In r' voc_rows /\ r_word r' = r_show r /\ r_val r' = r_val r /\ r_dom r' = r_dom r.
Proof.
  intros r Hr. pose proof rendering_reads_back_sweep as S. rewrite forallb_forall in S.
  specialize (S _ Hr). unfold reads_back in S. apply existsb_exists in S. destruct S as [r' [I E]].
  apply andb_prop in E. destruct E as [E E3]. apply andb_prop in E. destruct E as [E1 E2].
  exists r'. repeat split; auto; [apply beq_bytes_eq|apply Z.eqb_eq|apply N.eqb_eq]; assumption.
Qed.

(* 3. a word denotes one constant; and constants that print alike are equal
      (same value, same domain) *)
Definition word_functional (r : row) : bool :=
  forallb (fun r' => negb (beq_bytes (r_word r') (r_word r))
                     || (Z.eqb (r_val r') (r_val r) && N.eqb (r_dom r') (r_dom r) && beq_bytes (r_show r') (r_show r))) voc_rows.

Theorem word_functional_sweep : forallb word_functional voc_rows = true.
Proof. vm_compute. reflexivity. Qed.

Definition show_injective (r : row) : bool :=
  forallb (fun r' => negb (beq_bytes (r_show r') (r_show r))
                     || (Z.eqb (r_val r') (r_val r) && N.eqb (r_dom r') (r_dom r))) voc_rows.

Theorem show_injective_sweep : forallb show_injective voc_rows = true.
Proof. vm_compute. reflexivity. Qed.

Theorem renderings_unambiguous : forall r r', In r voc_rows -> In r' voc_rows ->
  r_show r' = r_show r -> r_val r' = r_val r /\ r_dom r' = r_dom r.
Proof.
  intros r r' Hr Hr' E. pose proof show_injective_sweep as S. rewrite forallb_forall in S.
  specialize (S _ Hr). unfold show_injective in S. rewrite forallb_forall in S. specialize (S _ Hr').
  apply orb_prop in S. destruct S as [S|S].
  - apply negb_true_iff in S. assert (beq_bytes (r_show r') (r_show r) = true) by (apply beq_bytes_eq; exact E). congruence.
  - apply andb_prop in S. destruct S as [S1 S2]. apply Z.eqb_eq in S1. apply N.eqb_eq in S2. auto.
Qed.

(* non-vacuity: the tables are not empty *)
Example tables_populated : (500 <? N.of_nat (length voc_rows))%N = true /\ (500 <? N.of_nat (length hdr_rows))%N = true.
Proof. vm_compute. auto. Qed.
