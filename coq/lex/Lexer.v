(* (DQ in comments stands for the double-quote character.)
   The scanner of libzwerg/lexer.ll as a total function from byte strings to
   token lists or a lexical error, and the grammar of libzwerg/parser.yy as a
   recogniser over token lists.  flex semantics: the longest match wins, the
   earlier rule on ties.  No proofs here. *)
From Coq Require Import ZArith NArith List Bool.
From Dwgrep Require Import Radix Value Escape ParseInt.
Import ListNotations.
Local Open Scope N_scope.

Module LexerM.

(* ---- character classes ---- *)
Definition between (lo hi c : N) : bool := (lo <=? c) && (c <=? hi).
Definition is_digit (c : N) : bool := between 48 57 c.
Definition is_idstart (c : N) : bool := (c =? 95) || between 97 122 c || between 65 90 c.
Definition is_alnum (c : N) : bool := is_idstart c || is_digit c.
Definition is_blank (c : N) : bool := (c =? 32) || (c =? 9) || (c =? 10).
(* [$%&.-/:<=>@^_~\\] -- note that .-/ is the range '.' to '/' *)
Definition is_opchar (c : N) : bool :=
  (c =? 36) || (c =? 37) || (c =? 38) || (c =? 46) || (c =? 47) || (c =? 58) || (c =? 60) || (c =? 61)
  || (c =? 62) || (c =? 64) || (c =? 94) || (c =? 95) || (c =? 126) || (c =? 92).
Definition is_wordprefix (c : N) : bool := (c =? 63) || (c =? 33) || (c =? 64) || (c =? 46) || (c =? 92).
Definition is_qb (c : N) : bool := (c =? 63) || (c =? 33).

Fixpoint span (p : N -> bool) (s : bytes) : nat :=
  match s with c :: t => if p c then S (span p t) else O | [] => O end.

Fixpoint is_prefix (l s : bytes) : bool :=
  match l, s with
  | [], _ => true
  | x :: l', y :: s' => (x =? y) && is_prefix l' s'
  | _ :: _, [] => false
  end.

(* ---- tokens ---- *)
Inductive piece :=
| PLit (b : bytes)           (* literal text (after unescaping) *)
| PSub (src : bytes)         (* %( src %) : an embedded program, parsed recursively *)
| PDir (c : N).              (* %s %x %o %b %d *)

Inductive token :=
| TLParen | TRParen | TQLParen | TBLParen
| TLBracket (ticks : nat) | TRBracket
| TLBrace | TRBrace | TQLBrace | TBLBrace
| TAsterisk | TPlus | TQmark | TComma | TDVbar | TVbar | TColon | TSemicolon | TAssign
| TIf | TThen | TElse | TLet | TDebug
| TWord (s : bytes) | TNumword (s : bytes) | TOp (s : bytes) | TInt (s : bytes)
| TStr (ps : list piece)
| TEOF.

Inductive lexerr :=
| EUnterminated              (* string literal not terminated *)
| EInvalidChar (c : N)       (* Invalid character in input stream *)
| ETooManyClosing            (* too many closing parentheses in embedded expression *)
| ETooFewClosing.            (* too few closing parentheses in embedded expression *)

(* ---- the INITIAL start condition: one match ---- *)

(* what an INITIAL rule does *)
Inductive action :=
| AToken (t : token)
| ASkip
| AString (raw : bool)
| AInvalid (c : N).

(* length matched by each rule (0 = no match), in the order of lexer.ll *)
Definition m_lit (l : bytes) (s : bytes) : nat := if is_prefix l s then length l else O.

Definition m_ticks (s : bytes) : nat :=
  let k := span (fun c => c =? 96) s in
  match skipn k s with 91 :: _ => S k | _ => O end.

Definition m_id (s : bytes) : nat :=
  match s with c :: t => if is_idstart c then S (span is_alnum t) else O | [] => O end.
Definition m_intbody (s : bytes) : nat :=
  match s with c :: t => if is_digit c then S (span is_alnum t) else O | [] => O end.

Definition m_word (s : bytes) : nat :=
  match s with
  | c :: t => if is_wordprefix c then (match m_id t with O => m_id s | n => S n end) else m_id s
  | [] => O
  end.
Definition m_numword (s : bytes) : nat :=
  match s with c :: t => if is_qb c then (match m_intbody t with O => O | n => S n end) else O | [] => O end.
Definition m_int (s : bytes) : nat :=
  match s with
  | 45 :: t => match m_intbody t with O => O | n => S n end
  | _ => m_intbody s
  end.
Definition m_blank (s : bytes) : nat := span is_blank s.
Definition m_linecomment (s : bytes) : nat :=
  match s with
  | 35 :: t => S (span (fun c => negb (c =? 10)) t)
  | 47 :: 47 :: t => S (S (span (fun c => negb (c =? 10)) t))
  | _ => O
  end.
(* position just after the first star-slash *)
Fixpoint find_close (s : bytes) : option nat :=
  match s with
  | 42 :: ((47 :: _) as t) => Some 2%nat
  | _ :: t => match find_close t with Some n => Some (S n) | None => None end
  | [] => None
  end.
Definition m_blockcomment (s : bytes) : nat :=
  match s with
  | 47 :: 42 :: t => match find_close t with Some n => S (S n) | None => O end
  | _ => O
  end.
Definition m_op (s : bytes) : nat :=
  match s with
  | c :: t =>
    if is_qb c then (match span is_opchar t with O => O | n => S n end)
    else span is_opchar s
  | [] => O
  end.
Definition m_any (s : bytes) : nat := match s with c :: _ => if c =? 10 then O else 1%nat | [] => O end.

Definition rules (s : bytes) : list (nat * (bytes -> action)) :=
  [ (m_lit [40] s, fun _ => AToken TLParen);
    (m_lit [41] s, fun _ => AToken TRParen);
    (m_lit [63; 40] s, fun _ => AToken TQLParen);
    (m_lit [33; 40] s, fun _ => AToken TBLParen);
    (m_ticks s, fun m => AToken (TLBracket (length m - 1)));
    (m_lit [93] s, fun _ => AToken TRBracket);
    (m_lit [123] s, fun _ => AToken TLBrace);
    (m_lit [125] s, fun _ => AToken TRBrace);
    (m_lit [63; 123] s, fun _ => AToken TQLBrace);
    (m_lit [33; 123] s, fun _ => AToken TBLBrace);
    (m_lit [42] s, fun _ => AToken TAsterisk);
    (m_lit [43] s, fun _ => AToken TPlus);
    (m_lit [63] s, fun _ => AToken TQmark);
    (m_lit [44] s, fun _ => AToken TComma);
    (m_lit [124; 124] s, fun _ => AToken TDVbar);
    (m_lit [124] s, fun _ => AToken TVbar);
    (m_lit [58] s, fun _ => AToken TColon);
    (m_lit [59] s, fun _ => AToken TSemicolon);
    (m_lit [58; 61] s, fun _ => AToken TAssign);
    (m_lit [105; 102] s, fun _ => AToken TIf);
    (m_lit [116; 104; 101; 110] s, fun _ => AToken TThen);
    (m_lit [101; 108; 115; 101] s, fun _ => AToken TElse);
    (m_lit [108; 101; 116] s, fun _ => AToken TLet);
    (m_lit [92; 100; 98; 103] s, fun _ => AToken TDebug);
    (m_word s, fun m => AToken (TWord m));
    (m_numword s, fun m => AToken (TNumword m));
    (m_lit [34] s, fun _ => AString false);
    (m_lit [114; 34] s, fun _ => AString true);
    (m_int s, fun m => AToken (TInt m));
    (m_blank s, fun _ => ASkip);
    (m_linecomment s, fun _ => ASkip);
    (m_blockcomment s, fun _ => ASkip);
    (m_op s, fun m => AToken (TOp m));
    (m_any s, fun m => AInvalid (hd 0 m)) ].

(* longest match, earliest rule on ties *)
Fixpoint best (rs : list (nat * (bytes -> action))) (cur : nat * (bytes -> action)) : nat * (bytes -> action) :=
  match rs with
  | [] => cur
  | r :: rs' => best rs' (if Nat.ltb (fst cur) (fst r) then r else cur)
  end.

Definition match_initial (s : bytes) : nat * action :=
  let '(n, f) := best (rules s) (O, fun _ => ASkip) in
  (n, f (firstn n s)).

(* ---- STRING and STRING_EMBEDDED ---- *)

Record fmt := mkfmt { f_raw : bool; f_lit : bytes; f_sub : bytes; f_level : nat; f_instr : bool; f_pieces : list piece }.

Definition flush (f : fmt) : fmt :=
  mkfmt (f_raw f) [] (f_sub f) (f_level f) (f_instr f) (f_pieces f ++ [PLit (f_lit f)]).
Definition add_lit (f : fmt) (b : bytes) : fmt :=
  mkfmt (f_raw f) (f_lit f ++ b) (f_sub f) (f_level f) (f_instr f) (f_pieces f).
Definition add_sub (f : fmt) (b : bytes) : fmt :=
  mkfmt (f_raw f) (f_lit f) (f_sub f ++ b) (f_level f) (f_instr f) (f_pieces f).
Definition set_raw (f : fmt) (r : bool) : fmt :=
  mkfmt r (f_lit f) (f_sub f) (f_level f) (f_instr f) (f_pieces f).
Definition set_level (f : fmt) (l : nat) : fmt :=
  mkfmt (f_raw f) (f_lit f) (f_sub f) l (f_instr f) (f_pieces f).
Definition set_instr (f : fmt) (b : bool) : fmt :=
  mkfmt (f_raw f) (f_lit f) (f_sub f) (f_level f) b (f_pieces f).
Definition push_piece (f : fmt) (p : piece) : fmt :=
  mkfmt (f_raw f) (f_lit f) (f_sub f) (f_level f) (f_instr f) (f_pieces f ++ [p]).
Definition yank_sub (f : fmt) : fmt :=
  mkfmt (f_raw f) (f_lit f) [] (f_level f) (f_instr f) (f_pieces f ++ [PSub (f_sub f)]).

Inductive smode := MBody | MCont (back : bytes) | MEmb.

Inductive sres :=
| SDone (ps : list piece) (rest : bytes)
| SErr (e : lexerr).

Definition is_open (c : N) : bool := (c =? 40) || (c =? 91) || (c =? 123).
Definition is_close (c : N) : bool := (c =? 41) || (c =? 93) || (c =? 125).
Definition is_directive (c : N) : bool := (c =? 115) || (c =? 120) || (c =? 111) || (c =? 98) || (c =? 100).

Fixpoint str_scan (m : smode) (f : fmt) (s : bytes) {struct s} : sres :=
  match m with
  | MCont back =>
    let give_up := SDone (f_pieces (flush f)) back in
    match s with
    | [] => give_up
    | c :: t =>
      if is_blank c then str_scan (MCont back) f t
      else if c =? 34 then str_scan MBody (set_raw f false) t
      else if c =? 114 then
        match t with
        | d :: t' => if d =? 34 then str_scan MBody (set_raw f true) t' else give_up
        | [] => give_up
        end
      else give_up
    end
  | MBody =>
    match s with
    | [] => SErr EUnterminated
    | c :: t =>
      if c =? 92 then
        match t with
        | [] => str_scan MBody (add_lit f [c]) t
        | d :: t' =>
          let other := if f_raw f then str_scan MBody (add_lit f [c; d]) t'
                       else str_scan MBody (add_lit f (simple_escape d)) t' in
          if d =? 120 then
            match t' with
            | h1 :: h2 :: t'' =>
              if is_hex h1 && is_hex h2
              then str_scan MBody (add_lit f [(hex_val h1 * 16 + hex_val h2) mod 256]) t''
              else other
            | _ => other
            end
          else if (48 <=? d) && (d <=? 51) then
            match t' with
            | o1 :: t'' =>
              if is_oct o1 then
                match t'' with
                | o2 :: t3 =>
                  if is_oct o2
                  then str_scan MBody (add_lit f [((d - 48) * 64 + (o1 - 48) * 8 + (o2 - 48)) mod 256]) t3
                  else str_scan MBody (add_lit f [(d - 48) * 8 + (o1 - 48)]) t''
                | [] => str_scan MBody (add_lit f [(d - 48) * 8 + (o1 - 48)]) t''
                end
              else str_scan MBody (add_lit f [d - 48]) t'
            | [] => str_scan MBody (add_lit f [d - 48]) t'
            end
          else other
        end
      else if c =? 34 then
        match t with
        | d :: t' => if d =? 92 then str_scan (MCont t) f t' else SDone (f_pieces (flush f)) t
        | [] => SDone (f_pieces (flush f)) t
        end
      else if c =? 37 then
        match t with
        | d :: t' =>
          if d =? 37 then str_scan MBody (add_lit f [37]) t'
          else if d =? 40 then str_scan MEmb (set_instr (flush f) false) t'
          else if is_directive d then str_scan MBody (push_piece (flush f) (PDir d)) t'
          else str_scan MBody (add_lit f [c]) t
        | [] => str_scan MBody (add_lit f [c]) t
        end
      else str_scan MBody (add_lit f [c]) t
    end
  | MEmb =>
    match s with
    | [] => SErr ETooFewClosing
    | c :: t =>
      if c =? 92 then
        match t with
        | d :: t' => if d =? 34 then str_scan MEmb (add_sub f [92; 34]) t' else str_scan MEmb (add_sub f [c]) t
        | [] => str_scan MEmb (add_sub f [c]) t
        end
      else if c =? 37 then
        match t with
        | d :: t' =>
          if d =? 40 then str_scan MEmb (set_level (set_instr (add_sub f [37; 40]) false) (S (f_level f))) t'
          else if d =? 41 then
            match f_level f with
            | O => str_scan MBody (yank_sub (set_instr f true)) t'
            | S l => str_scan MEmb (set_level (set_instr (add_sub f [37; 41]) true) l) t'
            end
          else str_scan MEmb (add_sub f [c]) t
        | [] => str_scan MEmb (add_sub f [c]) t
        end
      else if is_open c then
        str_scan MEmb (if f_instr f then add_sub f [c] else set_level (add_sub f [c]) (S (f_level f))) t
      else if is_close c then
        if f_instr f then str_scan MEmb (add_sub f [c]) t
        else match f_level f with
             | O => SErr ETooManyClosing
             | S l => str_scan MEmb (set_level (add_sub f [c]) l) t
             end
      else if c =? 34 then str_scan MEmb (set_instr (add_sub f [c]) (negb (f_instr f))) t
      else str_scan MEmb (add_sub f [c]) t
    end
  end.

Definition new_fmt (raw : bool) : fmt := mkfmt raw [] [] O false [].

(* ---- the whole scanner ---- *)

Inductive lexres :=
| LexOk (ts : list token)
| LexError (ts : list token) (e : lexerr)      (* tokens delivered before the error *)
| LexFuel.

Fixpoint lex (fuel : nat) (s : bytes) (acc : list token) : lexres :=
  match fuel with
  | O => LexFuel
  | S fu =>
    match s with
    | [] => LexOk (acc ++ [TEOF])
    | _ =>
      let '(n, a) := match_initial s in
      let rest := skipn n s in
      match a with
      | AToken t => lex fu rest (acc ++ [t])
      | ASkip => match n with O => LexFuel | _ => lex fu rest acc end
      | AInvalid c => LexError acc (EInvalidChar c)
      | AString raw =>
        match str_scan MBody (new_fmt raw) rest with
        | SDone ps rest' => lex fu rest' (acc ++ [TStr ps])
        | SErr e => LexError acc e
        end
      end
    end
  end.

Definition lex_all (s : bytes) : lexres := lex (S (length s)) s [].

(* ---- the grammar of parser.yy, as a recogniser ---- *)

Definition starts_statement (t : token) : bool :=
  match t with
  | TLParen | TQLParen | TBLParen | TLBracket _ | TLBrace | TQLBrace | TBLBrace
  | TLet | TIf | TInt _ | TStr _ | TDebug | TWord _ | TNumword _ => true
  | _ => false
  end.

Fixpoint id_list (ts : list token) : nat :=          (* number of leading TOK_WORDs *)
  match ts with TWord _ :: r => S (id_list r) | _ => O end.

Definition id_block_opt (ts : list token) : option (list token) :=
  match ts with
  | TVbar :: r =>
    match id_list r with
    | O => None
    | n => match skipn n r with TVbar :: r' => Some r' | _ => None end
    end
  | _ => Some ts
  end.

Fixpoint postfix (ts : list token) : list token :=
  match ts with
  | TAsterisk :: r | TPlus :: r | TQmark :: r => postfix r
  | _ => ts
  end.

Section Grammar.
Variable statement : list token -> option (list token).

Fixpoint statement_list (fuel : nat) (ts : list token) : option (list token) :=
  match fuel with
  | O => None
  | S fu =>
    match ts with
    | t :: _ => if starts_statement t
                then match statement ts with Some r => statement_list fu r | None => None end
                else Some ts
    | [] => Some ts
    end
  end.

Definition op_list (fuel : nat) (ts : list token) : option (list token) :=
  match statement_list fuel ts with
  | Some (TOp _ :: r) => statement_list fuel r
  | x => x
  end.

Fixpoint or_list (fuel : nat) (ts : list token) : option (list token) :=
  match fuel with
  | O => None
  | S fu =>
    match op_list fuel ts with
    | Some (TDVbar :: r) => or_list fu r
    | x => x
    end
  end.

Fixpoint alt_list (fuel : nat) (ts : list token) : option (list token) :=
  match fuel with
  | O => None
  | S fu =>
    match or_list fuel ts with
    | Some (TComma :: r) => alt_list fu r
    | x => x
    end
  end.
End Grammar.

Definition expect (t : token -> bool) (x : option (list token)) : option (list token) :=
  match x with Some (h :: r) => if t h then Some r else None | _ => None end.
Definition is_rparen t := match t with TRParen => true | _ => false end.
Definition is_rbracket t := match t with TRBracket => true | _ => false end.
Definition is_rbrace t := match t with TRBrace => true | _ => false end.
Definition is_semicolon t := match t with TSemicolon => true | _ => false end.
Definition is_assign t := match t with TAssign => true | _ => false end.
Definition is_then t := match t with TThen => true | _ => false end.
Definition is_else t := match t with TElse => true | _ => false end.

(* Statement; [fuel] bounds the nesting depth *)
Fixpoint statement (fuel : nat) (ts : list token) : option (list token) :=
  match fuel with
  | O => None
  | S fu =>
    let program := alt_list (statement fu) (S (length ts)) in
    let block closer r := match id_block_opt r with Some r' => expect closer (program r') | None => None end in
    let base :=
      match ts with
      | TLParen :: r | TQLParen :: r | TBLParen :: r => block is_rparen r
      | TLBracket _ :: TRBracket :: r => Some r
      | TLBracket _ :: r => block is_rbracket r
      | TLBrace :: r | TQLBrace :: r | TBLBrace :: r => block is_rbrace r
      | TLet :: TStr _ :: r => expect is_semicolon (match expect is_assign (Some r) with Some r' => program r' | None => None end)
      | TLet :: r =>
        match id_list r with
        | O => None
        | n => expect is_semicolon (match expect is_assign (Some (skipn n r)) with Some r' => program r' | None => None end)
        end
      | TIf :: r =>
        match expect is_then (statement fu r) with
        | Some r1 => match expect is_else (statement fu r1) with
                     | Some r2 => statement fu r2
                     | None => None
                     end
        | None => None
        end
      | TInt _ :: r | TStr _ :: r | TDebug :: r => Some r
      | TWord _ :: TColon :: r | TNumword _ :: TColon :: r => statement fu r
      | TWord _ :: r | TNumword _ :: r => Some r
      | _ => None
      end in
    match base with Some r => Some (postfix r) | None => None end
  end.

Definition parses (ts : list token) : bool :=
  match alt_list (statement (S (length ts))) (S (length ts)) ts with
  | Some [TEOF] => true
  | _ => false
  end.

(* semantic checks done by the parser's actions *)
Definition int_ok (s : bytes) : bool := match parse_int s with PInt _ _ => true | _ => false end.

Fixpoint token_ints_ok (ts : list token) : bool :=
  match ts with
  | TInt s :: r => int_ok s && token_ints_ok r
  | TNumword s :: r => int_ok (tl s) && token_ints_ok r
  | _ :: r => token_ints_ok r
  | [] => true
  end.

(* let STR := ...; requires a string without directives *)
Fixpoint let_strings_ok (ts : list token) : bool :=
  match ts with
  | TLet :: TStr ps :: r => (match ps with [PLit _] => true | _ => false end) && let_strings_ok r
  | _ :: r => let_strings_ok r
  | [] => true
  end.

Definition subs_of (ts : list token) : list bytes :=
  flat_map (fun t => match t with
                     | TStr ps => flat_map (fun p => match p with PSub src => [src] | _ => [] end) ps
                     | _ => []
                     end) ts.

Inductive verdict :=
| VLexError (e : lexerr)
| VSyntaxError
| VBadInt
| VBadLet
| VParsed (ts : list token)
| VFuel.

(* the embedded programs are lexed and parsed while the enclosing string is
   being lexed; [fuel] bounds the nesting of strings in programs in strings *)
Fixpoint analyse_deep (fuel : nat) (s : bytes) : verdict :=
  match fuel with
  | O => VFuel
  | S fu =>
    match lex_all s with
    | LexError _ e => VLexError e
    | LexFuel => VFuel
    | LexOk ts =>
      let inner := map (analyse_deep fu) (subs_of ts) in
      match find (fun v => match v with VParsed _ => false | _ => true end) inner with
      | Some v => v
      | None =>
        if negb (parses ts) then VSyntaxError
        else if negb (token_ints_ok ts) then VBadInt
        else if negb (let_strings_ok ts) then VBadLet
        else VParsed ts
      end
    end
  end.

Definition analyse (s : bytes) : verdict := analyse_deep (S (length s)) s.

End LexerM.
Export LexerM.
