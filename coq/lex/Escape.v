(* (DQ in comments stands for the double-quote character.)
   The CLI's brief (nested) string rendering -- dumper::dump_charp of
   dwgrep/dwgrep.cc -- and the lexer's STRING start condition of
   libzwerg/lexer.ll (flex longest-match, first rule wins ties), restricted to
   literals without format directives.  No proofs here. *)
From Coq Require Import ZArith NArith List Bool.
From Dwgrep Require Import Radix.
Import ListNotations.
Local Open Scope N_scope.

Module EscapeM.

(* ---- dump_charp, format::brief ---- *)

Definition isprint (c : N) : bool := (32 <=? c) && (c <=? 126).   (* C locale *)

Definition esc_byte (c : N) : bytes :=
  if c =? 34 then [92; 34]            (* DQ  -> \DQ *)
  else if c =? 92 then [92; 92]       (* \  -> \\ *)
  else if c =? 37 then [37; 37]       (* %  -> %% *)
  else if c =? 7 then [92; 97]        (* \a *)
  else if c =? 8 then [92; 98]        (* \b *)
  else if c =? 9 then [92; 116]       (* \t *)
  else if c =? 10 then [92; 110]      (* \n *)
  else if c =? 11 then [92; 118]      (* \v *)
  else if c =? 12 then [92; 102]      (* \f *)
  else if c =? 13 then [92; 114]      (* \r *)
  else if isprint c then [c]
  else [92; 120; digit_char (c / 16); digit_char (c mod 16)].   (* \xHH, setfill('0') setw(2) *)

Definition esc_body (s : bytes) : bytes := flat_map esc_byte s.
Definition esc (s : bytes) : bytes := 34 :: esc_body s ++ [34].

(* ---- lexer.ll, <STRING> ---- *)

Definition is_hex (c : N) : bool :=
  ((48 <=? c) && (c <=? 57)) || ((97 <=? c) && (c <=? 102)) || ((65 <=? c) && (c <=? 70)).
Definition hex_val (c : N) : N :=
  if (48 <=? c) && (c <=? 57) then c - 48 else if (97 <=? c) && (c <=? 102) then c - 87 else c - 55.
Definition is_oct (c : N) : bool := (48 <=? c) && (c <=? 55).
Definition is_ws (c : N) : bool := (c =? 32) || (c =? 9) || (c =? 10).

(* the DQ\\DQ(.|[\n]) rule, non-raw: what is appended *)
Definition simple_escape (c : N) : bytes :=
  if c =? 97 then [7] else if c =? 98 then [8] else if c =? 101 then [27]
  else if c =? 116 then [9] else if c =? 110 then [10] else if c =? 118 then [11]
  else if c =? 102 then [12] else if c =? 114 then [13] else if c =? 10 then []
  else [c].

Inductive lexres :=
| LexLit (content rest : bytes)     (* a literal: its bytes, and the input after the closing quote *)
| LexFormat                         (* contains a %-directive: not a plain literal *)
| LexEOF.                           (* DQstring literal not terminatedDQ *)

(* scanner state: in the string body, or after `DQ\` looking for the `DQ`/`rDQ` of
   a continuation; [back] is the input just after that first quote, where the
   scanner resumes (flex backs up) if the continuation does not materialise *)
Inductive sstate :=
| SBody
| SCont (back : bytes).

(* [s]: input after the opening quote.  [raw]: rDQ...DQ *)
Fixpoint lex_body (st : sstate) (raw : bool) (acc : bytes) (s : bytes) {struct s} : lexres :=
  match st with
  | SCont back =>
    match s with
    | [] => LexLit acc back
    | c :: t =>
      if is_ws c then lex_body (SCont back) raw acc t
      else if c =? 34 then lex_body SBody false acc t
      else if c =? 114 then
        match t with
        | d :: t' => if d =? 34 then lex_body SBody true acc t' else LexLit acc back
        | [] => LexLit acc back
        end
      else LexLit acc back
    end
  | SBody =>
    match s with
    | [] => LexEOF
    | c :: t =>
      if c =? 92 then
        match t with
        | [] => lex_body SBody raw (acc ++ [c]) t       (* lone backslash before EOF: single-char rule *)
        | d :: t' =>
          let other := if raw then lex_body SBody raw (acc ++ [c; d]) t'
                       else lex_body SBody raw (acc ++ simple_escape d) t' in
          if d =? 120 then
            match t' with
            | h1 :: h2 :: t'' =>
              if is_hex h1 && is_hex h2
              then lex_body SBody raw (acc ++ [(hex_val h1 * 16 + hex_val h2) mod 256]) t''
              else other
            | _ => other
            end
          else if (48 <=? d) && (d <=? 51) then
            match t' with
            | o1 :: t'' =>
              if is_oct o1 then
                match t'' with
                | o2 :: t3 =>
                  if is_oct o2
                  then lex_body SBody raw (acc ++ [((d - 48) * 64 + (o1 - 48) * 8 + (o2 - 48)) mod 256]) t3
                  else lex_body SBody raw (acc ++ [(d - 48) * 8 + (o1 - 48)]) t''
                | [] => lex_body SBody raw (acc ++ [(d - 48) * 8 + (o1 - 48)]) t''
                end
              else lex_body SBody raw (acc ++ [d - 48]) t'
            | [] => lex_body SBody raw (acc ++ [d - 48]) t'
            end
          else other
        end
      else if c =? 34 then
        match t with
        | d :: t' => if d =? 92 then lex_body (SCont t) raw acc t' else LexLit acc t
        | [] => LexLit acc t
        end
      else if c =? 37 then
        match t with
        | d :: t' =>
          if d =? 37 then lex_body SBody raw (acc ++ [37]) t'
          else if (d =? 40) || (d =? 115) || (d =? 120) || (d =? 111) || (d =? 98) || (d =? 100) then LexFormat
          else lex_body SBody raw (acc ++ [c]) t
        | [] => lex_body SBody raw (acc ++ [c]) t
        end
      else lex_body SBody raw (acc ++ [c]) t
    end
  end.

(* a whole literal token: `DQ...DQ` or `rDQ...DQ` at the head of the input *)
Definition lex_string (s : bytes) : option lexres :=
  match s with
  | 34 :: t => Some (lex_body SBody false [] t)
  | 114 :: 34 :: t => Some (lex_body SBody true [] t)
  | _ => None
  end.

End EscapeM.
Export EscapeM.
