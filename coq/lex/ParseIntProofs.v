(* Integers render, in full form, in their domain's radix such that reading
   the text back as a literal gives the same value in the same domain. *)
From Coq Require Import ZArith NArith List Bool Lia.
From Dwgrep Require Import Radix RadixProofs Value ParseInt.
Import ListNotations.
Local Open Scope Z_scope.

Definition in_range (z : Z) : Prop := - 9223372036854775808 <= z <= 18446744073709551615.

Lemma digit_char_cases d : (0 < d < 16)%N ->
  let c := digit_char d in
  c <> 48%N /\ is_x c = false /\ is_o c = false /\ (d < 8 -> is_b c = false)%N /\ c <> 45%N.
Proof.
  intros Hd. unfold digit_char, is_x, is_o, is_b.
  assert (d = 1 \/ d = 2 \/ d = 3 \/ d = 4 \/ d = 5 \/ d = 6 \/ d = 7 \/ d = 8 \/ d = 9 \/ d = 10 \/ d = 11 \/ d = 12 \/ d = 13 \/ d = 14 \/ d = 15)%N by lia.
  repeat (destruct H as [->|H]); try subst d; cbn; repeat split; try discriminate; try lia; intros; try reflexivity; lia.
Qed.

(* the range checks of parse_int on a magnitude *)
Lemma finish_pos v d : (v <= 18446744073709551615)%N ->
  (if (18446744073709551615 <? v)%N then POutOfRange else PInt (Z.of_N v) d) = PInt (Z.of_N v) d.
Proof. intros H. destruct (N.ltb_spec 18446744073709551615 v); [lia|reflexivity]. Qed.

Lemma finish_neg v d : (v <= 9223372036854775808)%N ->
  (if (18446744073709551615 <? v)%N then POutOfRange
   else if (9223372036854775808 <? v)%N then POutOfRange else PInt (- Z.of_N v) d) = PInt (- Z.of_N v) d.
Proof.
  intros H. destruct (N.ltb_spec 18446744073709551615 v); [lia|].
  destruct (N.ltb_spec 9223372036854775808 v); [lia|reflexivity].
Qed.

Definition fin_pos (base : N) (d : cdom) (ds : bytes) : pres :=
  match read_digits base ds 0 with
  | None => PInvalid
  | Some v => if (18446744073709551615 <? v)%N then POutOfRange else PInt (Z.of_N v) d
  end.
Definition fin_neg (base : N) (d : cdom) (ds : bytes) : pres :=
  match read_digits base ds 0 with
  | None => PInvalid
  | Some v => if (18446744073709551615 <? v)%N then POutOfRange
              else if (9223372036854775808 <? v)%N then POutOfRange else PInt (- Z.of_N v) d
  end.

Lemma parse_hex_pos c r : parse_int (48 :: 120 :: c :: r)%N = fin_pos 16 DHex (c :: r).
Proof. reflexivity. Qed.
Lemma parse_hex_neg c r : parse_int (45 :: 48 :: 120 :: c :: r)%N = fin_neg 16 DHex (c :: r).
Proof. reflexivity. Qed.
Lemma parse_bin_pos c r : parse_int (48 :: 98 :: c :: r)%N = fin_pos 2 DBin (c :: r).
Proof. reflexivity. Qed.
Lemma parse_bin_neg c r : parse_int (45 :: 48 :: 98 :: c :: r)%N = fin_neg 2 DBin (c :: r).
Proof. reflexivity. Qed.

Lemma fin_pos_digits base d n : (2 <= base <= 16)%N -> (n <= 18446744073709551615)%N ->
  fin_pos base d (digits base n) = PInt (Z.of_N n) d.
Proof. intros Hb Hn. unfold fin_pos. rewrite digits_roundtrip by auto. apply finish_pos; auto. Qed.

Lemma fin_neg_digits base d n : (2 <= base <= 16)%N -> (n <= 9223372036854775808)%N ->
  fin_neg base d (digits base n) = PInt (- Z.of_N n) d.
Proof. intros Hb Hn. unfold fin_neg. rewrite digits_roundtrip by auto. apply finish_neg; auto. Qed.

Theorem hex_render_parse z : in_range z -> z <> 0 -> parse_int (show_hex z) = PInt z DHex.
Proof.
  intros R NZ. unfold show_hex, in_range in *.
  assert (Hn : (0 < zabs z)%N) by (unfold zabs; lia).
  destruct (digits_head 16 (zabs z) ltac:(lia) Hn) as (d & rest & E & Hd).
  assert (Ez : (z =? 0) = false) by (apply Z.eqb_neq; auto). rewrite Ez.
  destruct (Z.ltb_spec z 0) as [L|L]; unfold str0x, char_minus; cbn [app]; rewrite E.
  - rewrite parse_hex_neg, <- E, fin_neg_digits by (unfold zabs; lia). f_equal. unfold zabs. lia.
  - rewrite parse_hex_pos, <- E, fin_pos_digits by (unfold zabs; lia). f_equal. unfold zabs. lia.
Qed.

Theorem bin_render_parse z : in_range z -> z <> 0 -> parse_int (show_bin z) = PInt z DBin.
Proof.
  intros R NZ. unfold show_bin, in_range in *.
  assert (Hn : (0 < zabs z)%N) by (unfold zabs; lia).
  destruct (digits_head 2 (zabs z) ltac:(lia) Hn) as (d & rest & E & Hd).
  assert (Ez : (z =? 0) = false) by (apply Z.eqb_neq; auto). rewrite Ez.
  destruct (Z.ltb_spec z 0) as [L|L]; unfold str0b, char_minus; cbn [app]; rewrite E.
  - rewrite parse_bin_neg, <- E, fin_neg_digits by (unfold zabs; lia). f_equal. unfold zabs. lia.
  - rewrite parse_bin_pos, <- E, fin_pos_digits by (unfold zabs; lia). f_equal. unfold zabs. lia.
Qed.

Lemma small_cases d : (0 < d < 10)%N -> (d = 1 \/ d = 2 \/ d = 3 \/ d = 4 \/ d = 5 \/ d = 6 \/ d = 7 \/ d = 8 \/ d = 9)%N.
Proof. lia. Qed.

Lemma parse_dec_pos d r : (0 < d < 10)%N -> parse_int (digit_char d :: r) = fin_pos 10 DDec (digit_char d :: r).
Proof. intros H. apply small_cases in H. repeat (destruct H as [->|H]); try subst d; reflexivity. Qed.

Lemma parse_dec_neg d r : (0 < d < 10)%N -> parse_int (45%N :: digit_char d :: r) = fin_neg 10 DDec (digit_char d :: r).
Proof. intros H. apply small_cases in H. repeat (destruct H as [->|H]); try subst d; reflexivity. Qed.

Lemma parse_oct_pos d r : (0 < d < 8)%N -> parse_int (48%N :: digit_char d :: r) = fin_pos 8 DOct (digit_char d :: r).
Proof.
  intros H. assert (H' : (0 < d < 10)%N) by lia. apply small_cases in H'.
  repeat (destruct H' as [->|H']); try subst d; try lia; destruct r; reflexivity.
Qed.

Lemma parse_oct_neg d r : (0 < d < 8)%N -> parse_int (45%N :: 48%N :: digit_char d :: r) = fin_neg 8 DOct (digit_char d :: r).
Proof.
  intros H. assert (H' : (0 < d < 10)%N) by lia. apply small_cases in H'.
  repeat (destruct H' as [->|H']); try subst d; try lia; destruct r; reflexivity.
Qed.

Theorem dec_render_parse z : in_range z -> parse_int (show_dec z) = PInt z DDec.
Proof.
  intros R. unfold show_dec, in_range in *.
  destruct (Z.eq_dec z 0) as [->|NZ]; [reflexivity|].
  assert (Hn : (0 < zabs z)%N) by (unfold zabs; lia).
  destruct (digits_head 10 (zabs z) ltac:(lia) Hn) as (d & rest & E & Hd).
  destruct (Z.ltb_spec z 0) as [L|L]; unfold char_minus; cbn [app]; rewrite E.
  - rewrite parse_dec_neg, <- E, fin_neg_digits by (unfold zabs; lia). f_equal. unfold zabs. lia.
  - rewrite parse_dec_pos, <- E, fin_pos_digits by (unfold zabs; lia). f_equal. unfold zabs. lia.
Qed.

Theorem oct_render_parse z : in_range z -> z <> 0 -> parse_int (show_oct z) = PInt z DOct.
Proof.
  intros R NZ. unfold show_oct, in_range in *.
  assert (Hn : (0 < zabs z)%N) by (unfold zabs; lia).
  destruct (digits_head 8 (zabs z) ltac:(lia) Hn) as (d & rest & E & Hd).
  assert (Ez : (z =? 0) = false) by (apply Z.eqb_neq; auto). rewrite Ez.
  destruct (Z.ltb_spec z 0) as [L|L]; unfold str0, char_minus; cbn [app]; rewrite E.
  - rewrite parse_oct_neg, <- E, fin_neg_digits by (unfold zabs; lia). f_equal. unfold zabs. lia.
  - rewrite parse_oct_pos, <- E, fin_pos_digits by (unfold zabs; lia). f_equal. unfold zabs. lia.
Qed.

(* zero in a non-decimal domain prints as "0", which reads back as decimal
   zero: equal value, different domain (iostream's showbase prints no prefix
   for zero) *)
Theorem zero_reads_back_decimal :
  parse_int (show_hex 0) = PInt 0 DDec /\ parse_int (show_oct 0) = PInt 0 DDec /\ parse_int (show_bin 0) = PInt 0 DDec.
Proof. repeat split; reflexivity. Qed.
