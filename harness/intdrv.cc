// intdrv: runs /repo/libzwerg/int.cc (linked directly) on operand lists.
//
// stdin:  first line "N", then N lines "<u as decimal uint64> <s: 0|1>"
//         (an operand in its internal representation {m_u, m_sign}).
//         Optionally further lines "P i j" restrict to listed pairs; if no
//         P-lines follow, all N*N ordered pairs are run.
// stdout: one line per pair (i, j):
//           i j add sub mul div mod neg lt gt le ge eq ne
//         where arithmetic results are the exact integer value in decimal
//         (representation-free) or E (an exception was thrown), neg is unary
//         minus of operand i, comparisons are 0/1.
#include <cassert>
#include <cstdint>
#include <cstdio>
#include <cstdlib>
#include <cinttypes>
#include <string>
#include <vector>
#include <stdexcept>
#include <iostream>
#include "int.hh"

static std::string
show (mpz_class v)
{
  char buf[64];
  if (v.m_sign == signedness::sign && v.m_i < 0)
    {
      // magnitude without overflow
      uint64_t mag = (uint64_t) 0 - v.m_u;
      snprintf (buf, sizeof buf, "-%" PRIu64, mag);
    }
  else
    snprintf (buf, sizeof buf, "%" PRIu64, v.m_u);
  return buf;
}

template <class F>
static std::string
guard (F f)
{
  try
    {
      return show (f ());
    }
  catch (std::domain_error &)
    {
      return "E";
    }
  catch (...)
    {
      return "X";
    }
}

int
main ()
{
  size_t n;
  if (scanf ("%zu", &n) != 1)
    return 2;
  std::vector <mpz_class> ops;
  for (size_t i = 0; i < n; ++i)
    {
      uint64_t u;
      int s;
      if (scanf ("%" SCNu64 " %d", &u, &s) != 2)
	return 2;
      ops.emplace_back (u, s ? signedness::sign : signedness::unsign);
    }

  std::vector <std::pair <size_t, size_t>> pairs;
  char tag[8];
  size_t pi, pj;
  while (scanf ("%7s %zu %zu", tag, &pi, &pj) == 3)
    pairs.emplace_back (pi, pj);
  bool all = pairs.empty ();

  auto run = [&] (size_t i, size_t j)
    {
      mpz_class a = ops[i], b = ops[j];
      std::string out = std::to_string (i) + " " + std::to_string (j);
      out += " " + guard ([&] { return a + b; });
      out += " " + guard ([&] { return a - b; });
      out += " " + guard ([&] { return a * b; });
      out += " " + guard ([&] { return a / b; });
      out += " " + guard ([&] { return a % b; });
      out += " " + guard ([&] { return -a; });
      out += (a < b) ? " 1" : " 0";
      out += (a > b) ? " 1" : " 0";
      out += (a <= b) ? " 1" : " 0";
      out += (a >= b) ? " 1" : " 0";
      out += (a == b) ? " 1" : " 0";
      out += (a != b) ? " 1" : " 0";
      out += "\n";
      fputs (out.c_str (), stdout);
    };

  if (all)
    for (size_t i = 0; i < n; ++i)
      for (size_t j = 0; j < n; ++j)
	run (i, j);
  else
    for (auto p: pairs)
      run (p.first, p.second);
  return 0;
}
