// covdrv: runs /repo/libzwerg/coverage.cc (linked directly) on operation
// sequences.  One case per input line; tokens:
//   a S L     coverage::add (S, L)
//   r S L     coverage::remove (S, L)          -> prints its bool
//   c S L     is_covered                       -> prints 0/1
//   o S L     is_overlap                       -> prints 0/1
//   i S L     intersect                        -> prints the resulting vector
//   q S L     c, o and i for the same range
//   + / - / &  binary: second operand is the coverage built by the tokens
//             after the sign up to the matching ';' (add_all / remove_all /
//             the `overlap` word's loop over intersect)
//   Q B N     all queries c/o/i over the universe [B, B+N]: every (s, l) with
//             B <= s <= B+N, 0 <= l, s + l <= B+N
// Output: one line: the outputs in order, then "= <final vector>".
// A vector prints as s:l,s:l,...  (empty: "-").
#include <cstdint>
#include <cstdio>
#include <cstdlib>
#include <cinttypes>
#include <iostream>
#include <sstream>
#include <string>
#include <vector>
#include "coverage.hh"

static std::string
show (coverage const &c)
{
  if (c.empty ())
    return "-";
  std::string r;
  for (size_t i = 0; i < c.size (); ++i)
    {
      if (i)
	r += ",";
      r += std::to_string (c.at (i).start) + ":" + std::to_string (c.at (i).length);
    }
  return r;
}

static void
run_tokens (std::vector <std::string> const &t, size_t &i, coverage &c, std::string &out, bool nested)
{
  auto num = [&] () { return (uint64_t) strtoull (t[i++].c_str (), nullptr, 10); };
  while (i < t.size ())
    {
      std::string op = t[i++];
      if (op == ";")
	{
	  if (nested)
	    return;
	  continue;
	}
      if (op == "a")
	{
	  uint64_t s = num (), l = num ();
	  c.add (s, l);
	}
      else if (op == "r")
	{
	  uint64_t s = num (), l = num ();
	  out += c.remove (s, l) ? "1 " : "0 ";
	}
      else if (op == "c")
	{
	  uint64_t s = num (), l = num ();
	  out += c.is_covered (s, l) ? "1 " : "0 ";
	}
      else if (op == "o")
	{
	  uint64_t s = num (), l = num ();
	  out += c.is_overlap (s, l) ? "1 " : "0 ";
	}
      else if (op == "i")
	{
	  uint64_t s = num (), l = num ();
	  out += show (c.intersect (s, l)) + " ";
	}
      else if (op == "q")
	{
	  uint64_t s = num (), l = num ();
	  out += c.is_covered (s, l) ? "1 " : "0 ";
	  out += c.is_overlap (s, l) ? "1 " : "0 ";
	  out += show (c.intersect (s, l)) + " ";
	}
      else if (op == "+" || op == "-" || op == "&")
	{
	  coverage other;
	  std::string dummy;
	  run_tokens (t, i, other, dummy, true);
	  if (op == "+")
	    c.add_all (other);
	  else if (op == "-")
	    out += c.remove_all (other) ? "1 " : "0 ";
	  else
	    {
	      coverage ret;
	      for (size_t k = 0; k < other.size (); ++k)
		ret.add_all (c.intersect (other.at (k).start, other.at (k).length));
	      c = ret;
	    }
	}
      else if (op == "Q")
	{
	  uint64_t b = num (), n = num ();
	  std::string cs, os, is;
	  for (uint64_t s = b; s <= b + n; ++s)
	    for (uint64_t l = 0; s + l <= b + n; ++l)
	      {
		cs += c.is_covered (s, l) ? '1' : '0';
		os += c.is_overlap (s, l) ? '1' : '0';
		is += show (c.intersect (s, l)) + "|";
	      }
	  out += cs + " " + os + " " + is + " ";
	}
    }
}

int
main ()
{
  std::string line;
  std::string buf;
  while (std::getline (std::cin, line))
    {
      std::vector <std::string> t;
      std::istringstream ss (line);
      std::string w;
      while (ss >> w)
	t.push_back (w);
      coverage c;
      std::string out;
      size_t i = 0;
      run_tokens (t, i, c, out, false);
      buf += out + "= " + show (c) + "\n";
      if (buf.size () > 60000)
	{
	  fputs (buf.c_str (), stdout);
	  buf.clear ();
	}
    }
  fputs (buf.c_str (), stdout);
  return 0;
}
