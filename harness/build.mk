# Builds pmachata/dwgrep from /repo's *current working tree* into $(B)
# (default /verif/build/plain) with the verification hooks on, plus the
# harness drivers.  The pinned /repo/_build is never touched.
#
#   make -f harness/build.mk FLAVOUR=plain|san -j16
#
REPO    ?= /repo
VERIF   ?= /verif
FLAVOUR ?= plain
BUILD   ?= $(VERIF)/build
B       := $(BUILD)/$(FLAVOUR)
GUARD   := -DDWGREP_VERIF

CXX     := g++
STD     := -std=c++14
ifeq ($(FLAVOUR),san)
OPT     := -O2 -g -fsanitize=address,undefined -fno-sanitize-recover=all -fno-omit-frame-pointer
LDSAN   := -fsanitize=address,undefined
else
OPT     := -O2 -g
LDSAN   :=
endif
CXXFLAGS := $(STD) $(OPT) -w $(GUARD) -I$(REPO)/libzwerg -I$(B)/gen -I$(REPO) -MMD -MP
LIBS    := -ldw -lelf

CORE := bindings build builtin-closure builtin-cmp builtin-cst builtin-shf builtin \
        constant docstring init int layout libzwerg op overload pred_result scon \
        selector stack strip tree tree_cr value-closure value-cst value-seq value-str value
DW   := atval cache coverage dwcst dwfl_context dwit dwmods libzwerg-dw value-aset \
        builtin-aset value-dw builtin-dw builtin-dw-abbrev builtin-dw-voc value-symbol builtin-symbol
GENO := parser lexer

LIBOBJS := $(addprefix $(B)/obj/,$(addsuffix .o,$(CORE) $(DW))) $(addprefix $(B)/obj/gen-,$(addsuffix .o,$(GENO)))
GENHDR  := $(B)/gen/known-dwarf.h $(B)/gen/known-elf.h $(B)/gen/version.h $(B)/gen/parser.hh $(B)/gen/lexer.hh

DRIVERS := $(patsubst $(VERIF)/harness/%.cc,%,$(wildcard $(VERIF)/harness/*drv.cc))

all: $(B)/dwgrep $(addprefix $(B)/,$(DRIVERS))

$(B)/gen $(B)/obj:
	mkdir -p $@

$(B)/gen/known-dwarf.h: $(REPO)/known-dwarf.awk /usr/include/dwarf.h | $(B)/gen
	gawk -f $(REPO)/known-dwarf.awk /usr/include/dwarf.h > $@.tmp && mv $@.tmp $@
$(B)/gen/known-elf.h: $(REPO)/known-elf.awk /usr/include/elf.h | $(B)/gen
	gawk -f $(REPO)/known-elf.awk /usr/include/elf.h > $@.tmp && mv $@.tmp $@
$(B)/gen/version.h: $(REPO)/version.h.in $(REPO)/VERSION.cmake | $(B)/gen
	maj=$$(sed -n 's/.*DWGREP_MAJOR "\(.*\)".*/\1/p' $(REPO)/VERSION.cmake); \
	min=$$(sed -n 's/.*DWGREP_MINOR "\(.*\)".*/\1/p' $(REPO)/VERSION.cmake); \
	sed "s/@DWGREP_MAJOR@/$$maj/; s/@DWGREP_MINOR@/$$min/" $(REPO)/version.h.in > $@
$(B)/gen/lexer.cc $(B)/gen/lexer.hh: $(REPO)/libzwerg/lexer.ll | $(B)/gen
	flex --header-file=$(B)/gen/lexer.hh -o $(B)/gen/lexer.cc $(REPO)/libzwerg/lexer.ll
$(B)/gen/parser.cc $(B)/gen/parser.hh: $(REPO)/libzwerg/parser.yy | $(B)/gen
	bison -Wno-deprecated -Wno-other -d -o $(B)/gen/parser.cc $(REPO)/libzwerg/parser.yy

$(B)/obj/gen-%.o: $(B)/gen/%.cc $(GENHDR) | $(B)/obj
	$(CXX) $(CXXFLAGS) -c -o $@ $<
$(B)/obj/%.o: $(REPO)/libzwerg/%.cc $(GENHDR) | $(B)/obj
	$(CXX) $(CXXFLAGS) -c -o $@ $<
$(B)/obj/cli-%.o: $(REPO)/dwgrep/%.cc $(GENHDR) | $(B)/obj
	$(CXX) $(CXXFLAGS) -c -o $@ $<
$(B)/obj/drv-%.o: $(VERIF)/harness/%.cc $(GENHDR) | $(B)/obj
	$(CXX) $(CXXFLAGS) -c -o $@ $<

$(B)/dwgrep: $(B)/obj/cli-dwgrep.o $(B)/obj/cli-options.o $(LIBOBJS)
	$(CXX) $(LDSAN) -o $@ $^ $(LIBS)

# intdrv links int.cc only; covdrv links coverage.cc only.
$(B)/intdrv: $(B)/obj/drv-intdrv.o $(B)/obj/int.o
	$(CXX) $(LDSAN) -o $@ $^
$(B)/covdrv: $(B)/obj/drv-covdrv.o $(B)/obj/coverage.o
	$(CXX) $(LDSAN) -o $@ $^
$(B)/zwdrv: $(B)/obj/drv-zwdrv.o $(LIBOBJS)
	$(CXX) $(LDSAN) -o $@ $^ $(LIBS)

-include $(wildcard $(B)/obj/*.d)

.PHONY: all
.SECONDARY:
