// zwdrv: library driver.  Reads one case per line on stdin, answers one JSON
// line per case on stdout.  Links all library objects built from /repo.
//
// A line is either a plain query text, or starts with '@' followed by
// TAB-separated key=value fields:
//   q=<hex>       query bytes (hex encoded)
//   m=run|nosimp|tree|tokens|api     (default run)
//   in=<hex>      query producing the input stack (first result on the empty
//                 stack, or on the Dwarf value when dw= is given)
//   dw=<path>     open <path> and push it as a Dwarf value on the input stack
//   max=<n>       pull at most n results (default 20000)
//   t=<secs>      per-case budget in CPU seconds of the worker (default 10); wall-clock backstop at 10x + 30 s
//   abandon=<k>   destroy the result set after k pulls
//
// Each case runs in a forked worker, so a crash / abort / timeout of case k is
// reported as the answer to case k and the remaining cases still run.
#include <cassert>
#include <csignal>
#include <cstdio>
#include <cstdlib>
#include <cstring>
#include <iostream>
#include <map>
#include <memory>
#include <sstream>
#include <string>
#include <vector>
#include <sys/types.h>
#include <sys/wait.h>
#include <sys/time.h>
#include <sys/resource.h>
#include <new>
#include <unistd.h>

#if defined (__SANITIZE_ADDRESS__)
# include <sanitizer/lsan_interface.h>
# define ZWDRV_LSAN 1
#endif

#include "libzwerg.h"
#include "libzwerg-dw.h"
#include "libzwergP.hh"
#include "builtin.hh"
#include "init.hh"
#include "op.hh"
#include "parser.hh"
#include "lexer.hh"
#include "stack.hh"
#include "tree.hh"
#include "value-cst.hh"
#include "value-str.hh"
#include "value-seq.hh"
#include "value-closure.hh"
#include "value-aset.hh"
#include "value-dw.hh"
#include "value-symbol.hh"
#include "docstring.hh"

static std::string
hex (std::string const &s)
{
  static char const *d = "0123456789abcdef";
  std::string r;
  for (unsigned char c: s)
    {
      r += d[c >> 4];
      r += d[c & 15];
    }
  return r;
}

static std::string
unhex (std::string const &s)
{
  std::string r;
  for (size_t i = 0; i + 1 < s.size (); i += 2)
    r += (char) std::stoi (s.substr (i, 2), nullptr, 16);
  return r;
}

static std::string
jstr (std::string const &s)
{
  std::string r = "\"";
  for (unsigned char c: s)
    {
      if (c == '"' || c == '\\')
	{
	  r += '\\';
	  r += c;
	}
      else if (c < 0x20 || c >= 0x7f)
	{
	  char buf[8];
	  snprintf (buf, sizeof buf, "\\u%04x", c);
	  r += buf;
	}
      else
	r += c;
    }
  return r + "\"";
}

static std::string
show_mpz (mpz_class v)
{
  char buf[64];
  if (v.m_sign == signedness::sign && v.m_i < 0)
    snprintf (buf, sizeof buf, "-%llu", (unsigned long long) ((uint64_t) 0 - v.m_u));
  else
    snprintf (buf, sizeof buf, "%llu", (unsigned long long) v.m_u);
  return buf;
}

static std::string
show_cst (constant const &c)
{
  std::string r = "{\"t\":\"c\",\"v\":\"" + show_mpz (c.value ()) + "\",\"d\":";
  r += c.dom () ? jstr (c.dom ()->name ()) : "null";
  if (c.dom ())
    {
      // what constant::operator< looks at: safe_arith and the most enclosing
      // domain of the value (identified by name and, since names may repeat
      // across machine-specific domains, by address as an opaque token)
      constant_dom const *me = c.dom ()->most_enclosing (c.value ());
      char buf[32];
      snprintf (buf, sizeof buf, "%p", (void const *) me);
      r += std::string (",\"ar\":") + (c.dom ()->safe_arith () ? "true" : "false")
	+ ",\"k\":" + jstr (std::string (me->name ()) + "@" + buf);
      // the domain's own brief rendering (what a constant looks like inside a sequence)
      std::stringstream bs;
      c.dom ()->show (c.value (), bs, brevity::brief);
      r += ",\"brief\":" + jstr (bs.str ());
    }
  return r;
}

static std::string dump_value (value const &v);

static std::string
dump_dw (value const &v)
{
  std::ostringstream o;
  if (auto d = value::as <value_die> (&v))
    {
      Dwarf_Die die = d->get_die ();
      o << "{\"t\":\"die\",\"off\":" << dwarf_dieoffset (&die)
	<< ",\"cooked\":" << (d->get_doneness () == doneness::cooked ? "true" : "false")
	<< ",\"imp\":[";
      bool first = true;
      for (auto imp = d->is_cooked () ? d->get_import () : nullptr; imp != nullptr;
	   imp = imp->is_cooked () ? imp->get_import () : nullptr)
	{
	  Dwarf_Die idie = imp->get_die ();
	  o << (first ? "" : ",") << dwarf_dieoffset (&idie);
	  first = false;
	}
      o << "]";
      return o.str ();
    }
  if (auto c = value::as <value_cu> (&v))
    {
      o << "{\"t\":\"cu\",\"off\":" << c->get_offset ()
	<< ",\"cooked\":" << (c->get_doneness () == doneness::cooked ? "true" : "false");
      return o.str ();
    }
  if (auto a = value::as <value_attr> (&v))
    {
      Dwarf_Attribute at = a->get_attr ();
      Dwarf_Die die = a->get_die ();
      o << "{\"t\":\"attr\",\"name\":" << dwarf_whatattr (&at)
	<< ",\"form\":" << dwarf_whatform (&at)
	<< ",\"die\":" << dwarf_dieoffset (&die)
	<< ",\"cooked\":" << (a->get_doneness () == doneness::cooked ? "true" : "false");
      return o.str ();
    }
  if (value::as <value_dwarf> (&v))
    return "{\"t\":\"dwarf\"";
  return "";
}

static std::string
dump_value (value const &v)
{
  std::string r;
  if (auto c = value::as <value_cst> (&v))
    r = show_cst (c->get_constant ());
  else if (auto s = value::as <value_str> (&v))
    r = "{\"t\":\"s\",\"v\":\"" + hex (s->get_string ()) + "\"";
  else if (auto q = value::as <value_seq> (&v))
    {
      r = "{\"t\":\"q\",\"v\":[";
      bool first = true;
      for (auto const &e: *q->get_seq ())
	{
	  if (!first)
	    r += ",";
	  first = false;
	  r += dump_value (*e);
	}
      r += "]";
    }
  else if (value::as <value_closure> (&v))
    r = "{\"t\":\"clo\"";
  else if (auto a = value::as <value_aset> (&v))
    {
      r = "{\"t\":\"a\",\"v\":[";
      bool first = true;
      coverage const &cv = a->get_coverage ();
      for (size_t ci = 0; ci < cv.size (); ++ci)
	{
	  cov_range const &rng = cv.at (ci);
	  if (!first)
	    r += ",";
	  first = false;
	  r += "[\"" + std::to_string (rng.start) + "\",\"" + std::to_string (rng.length) + "\"]";
	}
      r += "]";
    }
  else
    {
      r = dump_dw (v);
      if (r.empty ())
	r = "{\"t\":" + jstr (v.get_type ().name ());
    }
  {
    std::ostringstream ss;
    v.show (ss);
    r += ",\"show\":" + jstr (ss.str ());
  }
  r += ",\"pos\":" + std::to_string (v.get_pos ()) + "}";
  return r;
}

// TOS first
static std::string
dump_zw_stack (zw_stack const *stk)
{
  std::string r = "[";
  for (size_t d = 0; d < zw_stack_depth (stk); ++d)
    {
      if (d)
	r += ",";
      r += dump_value (*zw_stack_at (stk, d));
    }
  return r + "]";
}

static std::string
dump_stack (stack const &stk)
{
  std::string r = "[";
  for (size_t d = 0; d < stk.size (); ++d)
    {
      if (d)
	r += ",";
      r += dump_value (stk.get (d));
    }
  return r + "]";
}

static char const *
tt_name (tree_type tt)
{
  switch (tt)
    {
#define TREE_TYPE(ENUM, ARITY) case tree_type::ENUM: return #ENUM;
      TREE_TYPES
#undef TREE_TYPE
    }
  return "?";
}

static std::string
dump_tree (tree const &t)
{
  std::string r = "[";
  r += jstr (tt_name (t.m_tt));
  if (t.m_str != nullptr)
    r += ",{\"str\":\"" + hex (*t.m_str) + "\"}";
  if (t.m_cst != nullptr)
    r += "," + show_cst (*t.m_cst) + "}";
  if (t.m_builtin != nullptr)
    r += ",{\"builtin\":" + jstr (t.m_builtin->name ()) + "}";
  for (auto const &c: t.m_children)
    r += "," + dump_tree (c);
  return r + "]";
}


// S-expression dump of a tree, for the Coq model (see coq/zw/Tree.v)
static std::string
sx_tree (tree const &t)
{
  auto kids = [&] () {
    std::string r;
    for (auto const &c: t.m_children)
      r += " " + sx_tree (c);
    return r;
  };
  switch (t.m_tt)
    {
    case tree_type::CAT: return "(CAT" + kids () + ")";
    case tree_type::ALT: return "(ALT" + kids () + ")";
    case tree_type::OR: return "(OR" + kids () + ")";
    case tree_type::CAPTURE: return "(CAPTURE" + kids () + ")";
    case tree_type::SUBX_EVAL:
      return "(SUBX " + show_mpz (t.cst ().value ()) + kids () + ")";
    case tree_type::IFELSE: return "(IFELSE" + kids () + ")";
    case tree_type::SCOPE: return "(SCOPE" + kids () + ")";
    case tree_type::BLOCK: return "(BLOCK" + kids () + ")";
    case tree_type::BIND: return "(BIND x" + hex (t.str ()) + ")";
    case tree_type::READ: return "(READ x" + hex (t.str ()) + ")";
    case tree_type::NOP: return "(NOP)";
    case tree_type::CLOSE_STAR: return "(STAR" + kids () + ")";
    case tree_type::CLOSE_PLUS: return "(PLUS" + kids () + ")";
    case tree_type::ASSERT: return "(ASSERT" + kids () + ")";
    case tree_type::EMPTY_LIST: return "(EMPTYLIST)";
    case tree_type::PRED_AND: return "(PAND" + kids () + ")";
    case tree_type::PRED_OR: return "(POR" + kids () + ")";
    case tree_type::PRED_NOT: return "(PNOT" + kids () + ")";
    case tree_type::PRED_SUBX_ANY: return "(PSUBX" + kids () + ")";
    case tree_type::CONST:
      return "(CONST " + show_mpz (t.cst ().value ()) + " x"
	+ hex (t.cst ().dom () ? t.cst ().dom ()->name () : "?") + ")";
    case tree_type::STR: return "(STR x" + hex (t.str ()) + ")";
    case tree_type::FORMAT: return "(FORMAT" + kids () + ")";
    case tree_type::F_DEBUG: return "(DEBUG)";
    case tree_type::F_BUILTIN:
      {
	// The parser plants two kinds of builtins directly: ?N / !N and the
	// drop-below of backtick brackets.  Their parameters are private; the
	// names of what they build carry them.
	layout l;
	std::string nm;
	if (auto p = t.m_builtin->build_pred (l))
	  nm = p->name ();
	else
	  {
	    auto origin = std::make_shared <op_origin> (l);
	    nm = t.m_builtin->build_exec (l, origin)->name ();
	  }
	return "(BUILTIN x" + hex (nm) + ")";
      }
    }
  return "(?)";
}

struct kase
{
  std::string query;
  std::string mode = "run";
  std::string in;
  bool has_in = false;
  std::string dw;
  bool dwraw = false;
  size_t dwpos = 0;		// position the (first) Dwarf value is created with
  size_t max = 20000;
  unsigned timeout = 10;
  long abandon = -1;
  std::string script;
};

static kase
parse_case (std::string const &line)
{
  kase k;
  if (line.empty () || line[0] != '@')
    {
      k.query = line;
      return k;
    }
  size_t i = 1;
  while (i < line.size ())
    {
      size_t j = line.find ('\t', i);
      if (j == std::string::npos)
	j = line.size ();
      std::string f = line.substr (i, j - i);
      i = j + 1;
      size_t e = f.find ('=');
      if (e == std::string::npos)
	continue;
      std::string key = f.substr (0, e), val = f.substr (e + 1);
      if (key == "q")
	k.query = unhex (val);
      else if (key == "m")
	k.mode = val;
      else if (key == "in")
	{
	  k.in = unhex (val);
	  k.has_in = true;
	}
      else if (key == "dw")
	k.dw = val;
      else if (key == "dwraw")
	{
	  k.dw = val;
	  k.dwraw = true;
	}
      else if (key == "dwpos")
	k.dwpos = std::stoul (val);
      else if (key == "max")
	k.max = std::stoul (val);
      else if (key == "t")
	k.timeout = std::stoul (val);
      else if (key == "abandon")
	k.abandon = std::stol (val);
      else if (key == "script")
	k.script = val;
    }
  return k;
}

static zw_vocabulary *g_voc;
static std::ostringstream g_cerr;

static void
drain_errors (std::string &events, std::string &errors, bool &first_ev, bool &first_err)
{
  std::string s = g_cerr.str ();
  g_cerr.str ("");
  size_t i = 0;
  while (i < s.size ())
    {
      size_t j = s.find ('\n', i);
      if (j == std::string::npos)
	j = s.size ();
      std::string l = s.substr (i, j - i);
      i = j + 1;
      if (l.empty ())
	continue;
      events += std::string (first_ev ? "" : ",") + "[\"e\"," + jstr (l) + "]";
      first_ev = false;
      errors += std::string (first_err ? "" : ",") + jstr (l);
      first_err = false;
    }
}

static zw_stack *
make_input (kase const &k, std::string &err)
{
  zw_error *e = nullptr;
  zw_stack *stk = zw_stack_init (&e);
  if (!k.dw.empty ())
    {
      // comma-separated list of files, pushed in order (last one is TOS)
      size_t i = 0, npushed = 0;
      while (i <= k.dw.size ())
	{
	  size_t j = k.dw.find (',', i);
	  if (j == std::string::npos)
	    j = k.dw.size ();
	  std::string path = k.dw.substr (i, j - i);
	  i = j + 1;
	  if (path.empty ())
	    continue;
	  zw_value *dw = k.dwraw ? zw_value_init_dwarf_raw (path.c_str (), k.dwpos + npushed, &e)
				 : zw_value_init_dwarf (path.c_str (), k.dwpos + npushed, &e);
	  npushed++;
	  if (dw == nullptr)
	    {
	      err = std::string ("cannot open: ") + zw_error_message (e);
	      zw_error_destroy (e);
	      zw_stack_destroy (stk);
	      return nullptr;
	    }
	  zw_stack_push_take (stk, dw, &e);
	}
    }
  if (k.has_in)
    {
      zw_query *q = zw_query_parse_len (g_voc, k.in.data (), k.in.size (), &e);
      if (q == nullptr)
	{
	  err = std::string ("input query: ") + zw_error_message (e);
	  zw_error_destroy (e);
	  zw_stack_destroy (stk);
	  return nullptr;
	}
      zw_result *r = zw_query_execute (q, stk, &e);
      zw_stack *out = nullptr;
      if (r == nullptr || !zw_result_next (r, &out, &e) || out == nullptr)
	{
	  err = "input query yields nothing";
	  zw_stack_destroy (stk);
	  if (r != nullptr)
	    zw_result_destroy (r);
	  zw_query_destroy (q);
	  return nullptr;
	}
      zw_result_destroy (r);
      zw_query_destroy (q);
      zw_stack_destroy (stk);
      stk = out;
    }
  return stk;
}

static std::string
run_api (kase const &k)
{
  // Through the C API, exactly as a client would.
  zw_error *e = nullptr;
  zw_query *q = zw_query_parse_len (g_voc, k.query.data (), k.query.size (), &e);
  std::string pre;
  {
    std::string ev, er;
    bool a = true, b = true;
    drain_errors (ev, er, a, b);
    pre = er;
  }
  if (q == nullptr)
    {
      if (e == nullptr)
	return "{\"contract\":\"NULL query without error object\"}";
      std::string msg = zw_error_message (e);
      zw_error_destroy (e);
      return "{\"compile_error\":" + jstr (msg) + ",\"stderr\":[" + pre + "]}";
    }
  if (e != nullptr)
    return "{\"contract\":\"query returned and error object set\"}";

  std::string ierr;
  zw_stack *in = make_input (k, ierr);
  if (in == nullptr)
    {
      zw_query_destroy (q);
      return "{\"input_error\":" + jstr (ierr) + "}";
    }
  std::string input_before = dump_zw_stack (in);

  zw_result *r = zw_query_execute (q, in, &e);
  if (r == nullptr)
    {
      std::string msg = e ? zw_error_message (e) : "";
      if (e == nullptr)
	return "{\"contract\":\"NULL result without error object\"}";
      zw_error_destroy (e);
      zw_stack_destroy (in);
      zw_query_destroy (q);
      return "{\"execute_error\":" + jstr (msg) + "}";
    }

  std::string events, results, errors, hard = "null";
  bool first_ev = true, first_res = true, first_err = true, truncated = false;
  size_t n = 0;
  while (true)
    {
      if (k.abandon >= 0 && (long) n >= k.abandon)
	break;
      if (n >= k.max)
	{
	  truncated = true;
	  break;
	}
      zw_stack *out = nullptr;
      e = nullptr;
      bool ok = zw_result_next (r, &out, &e);
      drain_errors (events, errors, first_ev, first_err);
      if (!ok)
	{
	  if (e == nullptr)
	    return "{\"contract\":\"zw_result_next false without error object\"}";
	  std::string msg = zw_error_message (e);
	  zw_error_destroy (e);
	  hard = jstr (msg);
	  events += std::string (first_ev ? "" : ",") + "[\"x\"," + jstr (msg) + "]";
	  first_ev = false;
	  break;
	}
      if (e != nullptr)
	return "{\"contract\":\"zw_result_next true and error object set\"}";
      if (out == nullptr)
	break;
      std::string s = dump_zw_stack (out);
      zw_stack_destroy (out);
      events += std::string (first_ev ? "" : ",") + "[\"r\"," + s + "]";
      first_ev = false;
      results += std::string (first_res ? "" : ",") + s;
      first_res = false;
      ++n;
    }
  zw_result_destroy (r);
  drain_errors (events, errors, first_ev, first_err);
  std::string input_after = dump_zw_stack (in);
  zw_stack_destroy (in);
  zw_query_destroy (q);
  std::string res = "{\"hard\":" + hard
    + ",\"events\":[" + events + "],\"truncated\":" + (truncated ? "true" : "false")
    + ",\"n\":" + std::to_string (n);
  if (input_before != input_after)
    res += ",\"input_modified\":true";
  return res + "}";
}

static std::string
run_internal (kase const &k, bool simplify)
{
  // parse_query + (optional) simplify + build_exec, bypassing the C API, so
  // that the simplifier can be skipped and the tree dumped.
  try
    {
      tree t = parse_query (k.query.data (), k.query.data () + k.query.size ());
      if (simplify)
	t.simplify ();
      layout l;
      auto origin = std::make_shared <op_origin> (l);
      auto op = t.build_exec (l, origin, *g_voc->m_voc);

      std::string ierr;
      zw_stack *in = make_input (k, ierr);
      if (in == nullptr)
	return "{\"input_error\":" + jstr (ierr) + "}";
      auto stk = std::make_unique <stack> ();
      for (auto const &emt: in->m_values)
	stk->push (emt->clone ());
      zw_stack_destroy (in);

      std::string events, results, errors, hard = "null";
      bool first_ev = true, first_res = true, first_err = true, truncated = false;
      size_t n = 0;
      {
	scon sc {l};
	scon_guard sg {sc, *op};
	origin->set_next (sc, std::move (stk));
	try
	  {
	    while (true)
	      {
		if (n >= k.max)
		  {
		    truncated = true;
		    break;
		  }
		auto ret = op->next (sc);
		drain_errors (events, errors, first_ev, first_err);
		if (ret == nullptr)
		  break;
		std::string s = dump_stack (*ret);
		events += std::string (first_ev ? "" : ",") + "[\"r\"," + s + "]";
		first_ev = false;
		results += std::string (first_res ? "" : ",") + s;
		first_res = false;
		++n;
	      }
	  }
	catch (std::exception const &exc)
	  {
	    drain_errors (events, errors, first_ev, first_err);
	    hard = jstr (exc.what ());
	    events += std::string (first_ev ? "" : ",") + "[\"x\"," + hard + "]";
	  }
      }
      return "{\"hard\":" + hard
	+ ",\"events\":[" + events + "],\"truncated\":" + (truncated ? "true" : "false")
	+ ",\"n\":" + std::to_string (n) + "}";
    }
  catch (std::exception const &exc)
    {
      return "{\"compile_error\":" + jstr (exc.what ()) + "}";
    }
}

static std::string
run_tree (kase const &k)
{
  try
    {
      tree t = parse_query (k.query.data (), k.query.data () + k.query.size ());
      std::string raw = dump_tree (t);
      std::string sx_raw = sx_tree (t);
      t.simplify ();
      std::string simp = dump_tree (t);
      std::string sx_simp = sx_tree (t);
      std::string built = "true", berr = "null";
      try
	{
	  layout l;
	  auto origin = std::make_shared <op_origin> (l);
	  auto op = t.build_exec (l, origin, *g_voc->m_voc);
	}
      catch (std::exception const &exc)
	{
	  built = "false";
	  berr = jstr (exc.what ());
	}
      return "{\"tree\":" + raw + ",\"simplified\":" + simp + ",\"sx\":" + jstr (sx_raw)
	+ ",\"sx_simplified\":" + jstr (sx_simp) + ",\"built\":" + built
	+ ",\"build_error\":" + berr + "}";
    }
  catch (std::exception const &exc)
    {
      return "{\"compile_error\":" + jstr (exc.what ()) + "}";
    }
}


// History mode (C12): one query text, compiled as object A (and lazily B, and
// as often again as the script asks), and a script of operations:
//   s<j>=<hex expr>   build input stack j (expression evaluated on the Dwarf
//                     value(s) given by dw=, or on the empty stack)
//   e<k><a|b>s<j>     zw_query_execute (A or B, stack j) -> result set k
//   p<k>              zw_result_next on result set k
//   d<k>              zw_result_destroy
//   c=<hex query>     compile (and keep until the end) an unrelated query
//   x<k>=<hex query>  compile an unrelated query and execute it fully on the empty stack
// Answer: {"pulls":[[k, stack|null|{"error":..}], ...], "stacks_modified":bool}
static std::string
run_hist (kase const &k)
{
  zw_error *e = nullptr;
  zw_query *qa = zw_query_parse_len (g_voc, k.query.data (), k.query.size (), &e);
  if (qa == nullptr)
    {
      std::string msg = e ? zw_error_message (e) : "";
      if (e)
	zw_error_destroy (e);
      return "{\"compile_error\":" + jstr (msg) + "}";
    }
  zw_query *qb = nullptr;
  std::map <long, zw_result *> results;
  std::map <long, zw_stack *> stacks;
  std::map <long, std::string> stack_dumps;
  std::vector <zw_query *> others;
  std::string pulls;
  bool first = true;

  size_t i = 0;
  std::string const &sc = k.script;
  while (i < sc.size ())
    {
      size_t j = sc.find (',', i);
      if (j == std::string::npos)
	j = sc.size ();
      std::string tok = sc.substr (i, j - i);
      i = j + 1;
      if (tok.empty ())
	continue;
      char op = tok[0];
      if (op == 's')
	{
	  size_t eq = tok.find ('=');
	  size_t at = tok.find ('@');
	  long id = std::stol (tok.substr (1, (at != std::string::npos && at < eq ? at : eq) - 1));
	  kase k2 = k;
	  if (at != std::string::npos && at < eq)
	    k2.dw = unhex (tok.substr (at + 1, eq - at - 1));	// this stack starts from another file
	  k2.in = unhex (tok.substr (eq + 1));
	  k2.has_in = true;
	  std::string ierr;
	  zw_stack *stk = make_input (k2, ierr);
	  if (stk == nullptr)
	    return "{\"input_error\":" + jstr (ierr) + "}";
	  stacks[id] = stk;
	  stack_dumps[id] = dump_zw_stack (stk);
	}
      else if (op == 'e')
	{
	  size_t ab = tok.find_first_of ("ab", 1);
	  long id = std::stol (tok.substr (1, ab - 1));
	  bool use_b = tok[ab] == 'b';
	  long sid = std::stol (tok.substr (ab + 2));
	  if (!use_b && qa == nullptr)
	    use_b = true;
	  if (use_b && qb == nullptr)
	    {
	      qb = zw_query_parse_len (g_voc, k.query.data (), k.query.size (), &e);
	      if (qb == nullptr)
		{
		  // the text compiled at the start of this history is rejected now
		  std::string msg = e ? zw_error_message (e) : "";
		  if (e)
		    zw_error_destroy (e);
		  return "{\"recompile_error\":" + jstr (msg) + "}";
		}
	    }
	  zw_result *r = zw_query_execute (use_b ? qb : qa, stacks[sid], &e);
	  results[id] = r;
	}
      else if (op == 'p')
	{
	  long id = std::stol (tok.substr (1));
	  zw_stack *out = nullptr;
	  e = nullptr;
	  std::string item;
	  if (results.count (id) == 0 || results[id] == nullptr)
	    item = "\"no-such-result\"";
	  else if (zw_result_next (results[id], &out, &e))
	    {
	      if (out == nullptr)
		item = "null";
	      else
		{
		  item = dump_zw_stack (out);
		  zw_stack_destroy (out);
		}
	    }
	  else
	    {
	      item = "{\"error\":" + jstr (e ? zw_error_message (e) : "") + "}";
	      if (e)
		zw_error_destroy (e);
	    }
	  std::string ev, er;
	  bool a = true, b = true;
	  drain_errors (ev, er, a, b);
	  pulls += std::string (first ? "" : ",") + "[" + std::to_string (id) + "," + item + ",[" + er + "]]";
	  first = false;
	}
      else if (op == 'd')
	{
	  long id = std::stol (tok.substr (1));
	  if (results.count (id) && results[id] != nullptr)
	    {
	      zw_result_destroy (results[id]);
	      results[id] = nullptr;
	    }
	}
      else if (op == 'k')
	{
	  // the query goes away while result sets of it are still open
	  if (qa != nullptr)
	    zw_query_destroy (qa);
	  qa = nullptr;
	}
      else if (op == 'c')
	{
	  std::string q = unhex (tok.substr (2));
	  zw_query *o = zw_query_parse_len (g_voc, q.data (), q.size (), &e);
	  if (o != nullptr)
	    others.push_back (o);
	  else if (e)
	    zw_error_destroy (e);
	}
      else if (op == 'x')
	{
	  size_t eq = tok.find ('=');
	  std::string q = unhex (tok.substr (eq + 1));
	  zw_query *o = zw_query_parse_len (g_voc, q.data (), q.size (), &e);
	  if (o != nullptr)
	    {
	      zw_stack *es = zw_stack_init (&e);
	      zw_result *r = zw_query_execute (o, es, &e);
	      zw_stack *out = nullptr;
	      size_t n = 0;
	      while (r != nullptr && zw_result_next (r, &out, &e) && out != nullptr)
		{
		  zw_stack_destroy (out);
		  out = nullptr;
		  if (++n >= 1000)
		    break;
		}
	      if (r != nullptr)
		zw_result_destroy (r);
	      zw_stack_destroy (es);
	      zw_query_destroy (o);
	      std::string ev, er;
	      bool a = true, b = true;
	      drain_errors (ev, er, a, b);
	    }
	  else if (e)
	    zw_error_destroy (e);
	}
    }
  bool modified = false;
  for (auto &p: stacks)
    if (dump_zw_stack (p.second) != stack_dumps[p.first])
      modified = true;
  for (auto &p: results)
    if (p.second != nullptr)
      zw_result_destroy (p.second);
  for (auto &p: stacks)
    zw_stack_destroy (p.second);
  for (auto o: others)
    zw_query_destroy (o);
  if (qb != nullptr)
    zw_query_destroy (qb);
  if (qa != nullptr)
    zw_query_destroy (qa);
  return "{\"pulls\":[" + pulls + "],\"stacks_modified\":" + (modified ? "true" : "false") + "}";
}

// The scanner alone, on exactly the given bytes (no terminator after them).
static std::string
run_lex (kase const &k)
{
  static std::map <int, char const *> const names = {
    {TOK_LPAREN, "LPAREN"}, {TOK_RPAREN, "RPAREN"}, {TOK_QMARK_LPAREN, "QMARK_LPAREN"},
    {TOK_BANG_LPAREN, "BANG_LPAREN"}, {TOK_LBRACKET, "LBRACKET"}, {TOK_RBRACKET, "RBRACKET"},
    {TOK_LBRACE, "LBRACE"}, {TOK_RBRACE, "RBRACE"}, {TOK_QMARK_LBRACE, "QMARK_LBRACE"},
    {TOK_BANG_LBRACE, "BANG_LBRACE"}, {TOK_ASTERISK, "ASTERISK"}, {TOK_PLUS, "PLUS"},
    {TOK_QMARK, "QMARK"}, {TOK_COMMA, "COMMA"}, {TOK_COLON, "COLON"}, {TOK_SEMICOLON, "SEMICOLON"},
    {TOK_VBAR, "VBAR"}, {TOK_DOUBLE_VBAR, "DOUBLE_VBAR"}, {TOK_ASSIGN, "ASSIGN"}, {TOK_IF, "IF"},
    {TOK_THEN, "THEN"}, {TOK_ELSE, "ELSE"}, {TOK_LET, "LET"}, {TOK_WORD, "WORD"},
    {TOK_NUMWORD, "NUMWORD"}, {TOK_OP, "OP"}, {TOK_LIT_STR, "STR"}, {TOK_LIT_INT, "INT"},
    {TOK_DEBUG, "DEBUG"}, {TOK_EOF, "EOF"},
  };
  size_t len = k.query.size ();
  char *buf = (char *) malloc (len ? len : 1);
  memcpy (buf, k.query.data (), len);
  yyscan_t sc;
  if (yylex_init (&sc) != 0)
    return "{\"crash\":\"yylex_init\"}";
  yy_scan_bytes (buf, len, sc);
  std::string toks, err;
  bool first = true;
  try
    {
      for (size_t n = 0; n < 100000; ++n)
	{
	  YYSTYPE val;
	  memset (&val, 0, sizeof val);
	  int tk = yylex (&val, sc);
	  auto it = names.find (tk);
	  std::string item = std::string ("[") + jstr (it == names.end () ? "?" : it->second);
	  if (tk == TOK_WORD || tk == TOK_NUMWORD || tk == TOK_OP || tk == TOK_LIT_INT)
	    item += "," + jstr (hex (std::string (val.s.buf, val.s.len)));
	  else if (tk == TOK_LBRACKET)
	    item += "," + std::to_string (val.u);
	  else if (tk == TOK_LIT_STR)
	    {
	      item += "," + jstr (sx_tree (*val.t));
	      delete val.t;
	    }
	  item += "]";
	  toks += std::string (first ? "" : ",") + item;
	  first = false;
	  if (tk == TOK_EOF || tk <= 0)
	    break;
	}
    }
  catch (std::runtime_error const &e)
    {
      err = e.what ();
    }
  catch (...)
    {
      err = "unknown exception";
    }
  yylex_destroy (sc);
  free (buf);
  return "{\"tokens\":[" + toks + "],\"lex_error\":" + (err.empty () ? "null" : jstr (err)) + "}";
}

static std::string
do_case (kase const &k)
{
  if (k.mode == "lex")
    return run_lex (k);
  if (k.mode == "tree")
    return run_tree (k);
  if (k.mode == "hist")
    return run_hist (k);
  if (k.mode == "voc")
    {
      std::string r = "{\"words\":[";
      bool first = true;
      for (auto const &b: g_voc->m_voc->get_builtins ())
	{
	  r += std::string (first ? "" : ",") + jstr (b.first);
	  first = false;
	}
      return r + "]}";
    }
  if (k.mode == "nosimp")
    return run_internal (k, false);
  if (k.mode == "internal")
    return run_internal (k, true);
  return run_api (k);
}

int
main (int argc, char **argv)
{
  std::vector <std::string> lines;
  {
    std::string l;
    while (std::getline (std::cin, l))
      lines.push_back (l);
  }
  std::string default_mode = argc > 1 ? argv[1] : "run";

  size_t next = 0;
  while (next < lines.size ())
    {
      int fds[2];
      if (pipe (fds) != 0)
	return 3;
      fflush (stdout);
      pid_t pid = fork ();
      if (pid == 0)
	{
	  close (fds[0]);
	  FILE *out = fdopen (fds[1], "w");
	  std::cerr.rdbuf (g_cerr.rdbuf ());
#if !defined (__SANITIZE_ADDRESS__)
	  {
	    // a case that goes astray must not take the machine's memory with it (the
	    // sanitizer builds reserve address space far beyond this and keep their own limits)
	    struct rlimit rl = {(rlim_t) 3 << 30, (rlim_t) 3 << 30};
	    setrlimit (RLIMIT_AS, &rl);
	    // running out of that budget ends the case like running out of time does
	    std::set_new_handler ([] { _exit (86); });
	  }
#endif
	  // bison's yyerror writes to C stderr; silence it.
	  if (!freopen ("/dev/null", "w", stderr))
	    {}
	  zw_error *e = nullptr;
	  g_voc = zw_vocabulary_init (&e);
	  zw_vocabulary_add (g_voc, zw_vocabulary_core (&e), &e);
	  zw_vocabulary_add (g_voc, zw_vocabulary_dwarf (&e), &e);
	  for (size_t i = next; i < lines.size (); ++i)
	    {
	      kase k = parse_case (lines[i]);
	      if (lines[i].empty () || lines[i][0] != '@')
		k.mode = default_mode;
	      fprintf (out, "B %zu\n", i);
	      fflush (out);
	      // the budget is CPU time of this worker, so that a loaded machine does
	      // not turn slow cases into hangs; a wall-clock alarm far beyond it
	      // catches a worker that sleeps for ever
	      struct itimerval it = {{0, 0}, {(time_t) k.timeout, 0}};
	      setitimer (ITIMER_PROF, &it, nullptr);
	      alarm (k.timeout * 10 + 30);
	      std::string r = do_case (k);
	      it.it_value.tv_sec = 0;
	      setitimer (ITIMER_PROF, &it, nullptr);
	      alarm (0);
#ifdef ZWDRV_LSAN
	      // everything the case allocated has been released by now: what is still
	      // unreachable is a leak of this case
	      if (__lsan_do_recoverable_leak_check () != 0 && r.size () > 1 && r[r.size () - 1] == '}')
		r = r.substr (0, r.size () - 1) + ",\"leak\":true}";
#endif
	      fprintf (out, "R %zu %s\n", i, r.c_str ());
	      fflush (out);
	    }
	  fclose (out);
	  _exit (0);
	}
      close (fds[1]);
      FILE *in = fdopen (fds[0], "r");
      char *buf = nullptr;
      size_t cap = 0;
      ssize_t len;
      size_t begun = next;
      bool in_flight = false;
      while ((len = getline (&buf, &cap, in)) > 0)
	{
	  if (buf[0] == 'B')
	    {
	      begun = strtoul (buf + 2, nullptr, 10);
	      in_flight = true;
	    }
	  else if (buf[0] == 'R')
	    {
	      char *p = buf + 2;
	      size_t idx = strtoul (p, &p, 10);
	      fputs (p + 1, stdout);
	      next = idx + 1;
	      in_flight = false;
	    }
	}
      free (buf);
      fclose (in);
      int status = 0;
      waitpid (pid, &status, 0);
      if (in_flight)
	{
	  std::string why;
	  if (WIFSIGNALED (status))
	    why = (WTERMSIG (status) == SIGALRM || WTERMSIG (status) == SIGPROF) ? "timeout" : "signal " + std::to_string (WTERMSIG (status));
	  else
	    why = WEXITSTATUS (status) == 86 ? std::string ("timeout (memory budget)") : "exit " + std::to_string (WEXITSTATUS (status));
	  printf ("{\"crash\":\"%s\"}\n", why.c_str ());
	  next = begun + 1;
	}
      else if (next < lines.size () && !(WIFEXITED (status) && WEXITSTATUS (status) == 0))
	{
	  // died between cases
	  printf ("{\"crash\":\"worker died\"}\n");
	  ++next;
	}
    }
  return 0;
}
