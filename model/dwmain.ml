(* zwmodel dw: reads forests (lines "U off version abbrev_off", "D depth off tag flag abbrev name:form:ref*",
   terminated by "E"), prints the rows of the raw and of the cooked view.  Conversion only. *)
open Zwm
open Zutil

let n_of_int i = match z_of_int i with Z0 -> N0 | Zpos p -> Npos p | Zneg _ -> N0
let int_of_n = function N0 -> 0 | Npos p -> int_of_pos p
let ni s = n_of_int (int_of_string s)

type pdie = { depth : int; off : n; tag : n; flag : bool; abbrev : n; attrs : ForestM.attr list }

let rec build (ds : pdie list) (depth : int) : ForestM.die list * pdie list =
  match ds with
  | d :: rest when d.depth = depth ->
    let kids, rest' = build rest (depth + 1) in
    let sibs, rest'' = build rest' depth in
    (ForestM.Die (d.off, d.tag, d.flag, d.abbrev, d.attrs, kids) :: sibs, rest'')
  | _ -> ([], ds)

let opt_n = function None -> "-" | Some v -> string_of_int (int_of_n v)
let list_n l = String.concat "," (List.map (fun v -> string_of_int (int_of_n v)) l)

let print_row kind (r : ForestM.row) =
  Printf.printf "%s %d %d %d %s [%s] [%s] %s %s\n" kind (int_of_n r.ForestM.r_off) (int_of_n r.ForestM.r_tag)
    (if r.ForestM.r_flag then 1 else 0) (opt_n r.ForestM.r_parent) (list_n r.ForestM.r_kids)
    (String.concat "," (List.map (fun (a, b) -> Printf.sprintf "%d:%d" (int_of_n a) (int_of_n b)) r.ForestM.r_attrs))
    (opt_n r.ForestM.r_root) (opt_n r.ForestM.r_unit)

(* DW_AT_sibling name byte_size const_value abstract_origin decl_line declaration external specification MIPS_linkage_name *)
let find_names = [1; 3; 11; 28; 49; 59; 60; 63; 71; 0x2007]

let flush_forest (units : (n * n * n * pdie list) list) =
  let f = List.map (fun (off, ver, ab, ds) ->
      let roots, _ = build (List.rev ds) 0 in
      { ForestM.u_off = off; u_version = ver; u_abbrev_off = ab; u_root = (match roots with r :: _ -> Some r | [] -> None) })
      (List.rev units) in
  Printf.printf "RAWUNITS %s\n" (list_n (List.map (fun u -> u.ForestM.u_off) (ForestM.raw_units f)));
  Printf.printf "COOKEDUNITS %s\n" (list_n (List.map (fun u -> u.ForestM.u_off) (ForestM.cooked_units f)));
  Printf.printf "WALK %s\n" (list_n (List.map ForestM.d_off (IterM.walk_all f)));
  List.iter (print_row "RAW") (ForestM.raw_rows f);
  List.iter (print_row "COOKED") (ForestM.cooked_rows f);
  (* what the model of find_attribute (FindAttr.v) finds for a few attribute names on every stored DIE *)
  let fuel = ForestM.size f in
  List.iter (fun d ->
      let one x = match FindAttrM.find_attr fuel f d (n_of_int x) with
        | Some (o, a) -> Printf.sprintf "%d=%d:%d" x (int_of_n o) (int_of_n a.ForestM.a_form)
        | None -> Printf.sprintf "%d=-" x in
      Printf.printf "FIND %d %s\n" (int_of_n (ForestM.d_off d)) (String.concat " " (List.map one find_names)))
    (ForestM.raw_entries f);
  (* what the model of the cooked child producer (ChildIter.v) hands out for every stored DIE: child@import.import... *)
  let nd = List.length (ForestM.raw_entries f) in
  let cfuel = nat_of_int (1000 + nd * nd) in
  List.iter (fun d ->
      let ks = ChildIterM.children cfuel f d in
      Printf.printf "KIDS %d %s\n" (int_of_n (ForestM.d_off d))
        (String.concat " " (List.map (fun (k, ch) -> Printf.sprintf "%d@%s" (int_of_n (ForestM.d_off k))
                                        (String.concat "." (List.map (fun c -> string_of_int (int_of_n c)) ch))) ks)))
    (ForestM.raw_entries f);
  (* what the model of the cooked entry producer hands out for every unit that is listed *)
  List.iter (fun u -> match u.ForestM.u_root with
      | Some r ->
        Printf.printf "ENTRIES %d %s\n" (int_of_n u.ForestM.u_off)
          (String.concat " " (List.map (fun (k, ch) -> Printf.sprintf "%d@%s" (int_of_n (ForestM.d_off k))
                                          (String.concat "." (List.map (fun c -> string_of_int (int_of_n c)) ch)))
                                (ChildIterM.entries cfuel f r)))
      | None -> ())
    (ForestM.cooked_units f);
  print_endline "END"

let run () =
  let units = ref [] in
  try
    while true do
      let line = input_line stdin in
      match String.split_on_char ' ' (String.trim line) with
      | "U" :: off :: ver :: ab :: _ -> units := (ni off, ni ver, ni ab, []) :: !units
      | "D" :: depth :: off :: tag :: flag :: abbrev :: attrs ->
        let at = List.filter_map (fun s -> if s = "" then None else
            match String.split_on_char ':' s with
            | [a; b; r] -> Some { ForestM.a_name = ni a; a_form = ni b; a_ref = (if r = "-1" then None else Some (ni r)) }
            | _ -> None) attrs in
        let d = { depth = int_of_string depth; off = ni off; tag = ni tag; flag = flag = "1"; abbrev = ni abbrev; attrs = at } in
        (match !units with
         | (o, v, a, ds) :: rest -> units := (o, v, a, d :: ds) :: rest
         | [] -> ())
      | "E" :: _ -> flush_forest !units; units := []
      | _ -> ()
    done
  with End_of_file -> ()
