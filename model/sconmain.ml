(* zwmodel scon: a trace of the DWGREP_VERIF scon hook ("<id> <a|c|g|d|e> <n> <m>" per line) ->
   one verdict per state area.  Conversion only. *)
open Zwm
open Zutil
let n_of_int i = match z_of_int i with Z0 -> N0 | Zpos p -> Npos p | Zneg _ -> N0
let run () =
  let areas : (string, (n * SconM.event list)) Hashtbl.t = Hashtbl.create 64 in
  let order = ref [] in
  (try
     while true do
       match String.split_on_char ' ' (String.trim (input_line stdin)) with
       | [id; k; a; b] ->
         let cap, evs = try Hashtbl.find areas id with Not_found -> (order := id :: !order; (N0, [])) in
         let a' = n_of_int (int_of_string a) and b' = n_of_int (int_of_string b) in
         (match k with
          | "a" -> Hashtbl.replace areas id (a', evs)
          | "c" -> Hashtbl.replace areas id (cap, SconM.Con (a', b') :: evs)
          | "g" -> Hashtbl.replace areas id (cap, SconM.Get (a', b') :: evs)
          | "d" -> Hashtbl.replace areas id (cap, SconM.Des (a', b') :: evs)
          | "e" -> Hashtbl.replace areas id (cap, SconM.End :: evs)
          | _ -> ())
       | _ -> ()
     done
   with End_of_file -> ());
  List.iter (fun id ->
      let cap, evs = Hashtbl.find areas id in
      let evs = List.rev evs in
      let ended = (match List.rev evs with SconM.End :: _ -> true | _ -> false) in
      let v = match SconM.run cap [] evs O with
        | SconM.Accept -> if ended then "ACCEPT" else "UNFINISHED"
        | SconM.RejectOverlap i -> "OVERLAP " ^ string_of_int (int_of_nat i)
        | SconM.RejectNotLive i -> "NOTLIVE " ^ string_of_int (int_of_nat i)
        | SconM.RejectOutside i -> "OUTSIDE " ^ string_of_int (int_of_nat i)
        | SconM.RejectLeak i -> "LEAK " ^ string_of_int (int_of_nat i) in
      Printf.printf "%s %d %s\n" id (List.length evs) v) (List.rev !order)
