(* zwmodel diecmp: one list of DIE values per line, "<off> <raw 0|1> <imp,imp,...|->" separated
   by ";" (imports innermost first) -> the n x n matrix of value_die::cmp, row-major,
   0 = less, 1 = equal, 2 = greater.  Conversion only. *)
open Zwm
open Zutil

let n_of_string s = match z_of_string s with Z0 -> N0 | Zpos p -> Npos p | Zneg _ -> N0

let rec chain = function
  | [] -> None
  | c :: rest -> Some (DieCmpM.Die (N0, n_of_string c, false, chain rest))

let parse (s : string) : DieCmpM.die =
  match List.filter (fun x -> x <> "") (String.split_on_char ' ' s) with
  | [off; raw; imps] ->
    let l = if imps = "-" then [] else String.split_on_char ',' imps in
    DieCmpM.Die (N0, n_of_string off, raw = "1", chain l)
  | _ -> failwith ("diecmp: bad value: " ^ s)

let run () =
  try
    while true do
      let line = input_line stdin in
      let dies = Array.of_list (List.map parse (List.filter (fun x -> String.trim x <> "") (String.split_on_char ';' line))) in
      let n = Array.length dies in
      let b = Buffer.create (n * n) in
      for i = 0 to n - 1 do
        for j = 0 to n - 1 do
          Buffer.add_char b (match DieCmpM.die_cmp dies.(i) dies.(j) with Lt -> '0' | Eq -> '1' | Gt -> '2')
        done
      done;
      print_endline (Buffer.contents b)
    done
  with End_of_file -> ()
