(* zwmodel syn: one hex-encoded byte string per line ->
     <verdict> TAB <tokens of the outer scan>
   Conversion only. *)
open Zwm
open Zutil

let n_of_int i = match z_of_int i with Z0 -> N0 | Zpos p -> Npos p | Zneg _ -> N0
let int_of_n = function N0 -> 0 | Npos p -> int_of_pos p
let bytes_of_hex (h : string) : n list =
  List.init (String.length h / 2) (fun i -> n_of_int (int_of_string ("0x" ^ String.sub h (2 * i) 2)))
let hex_of_bytes (b : n list) : string =
  String.concat "" (List.map (fun c -> Printf.sprintf "%02x" (int_of_n c)) b)

let err_name = function
  | LexerM.EUnterminated -> "unterminated"
  | LexerM.EInvalidChar c -> "invalidchar:" ^ string_of_int (int_of_n c)
  | LexerM.ETooManyClosing -> "toomany"
  | LexerM.ETooFewClosing -> "toofew"

let piece = function
  | LexerM.PLit b -> "L" ^ hex_of_bytes b
  | LexerM.PSub b -> "S" ^ hex_of_bytes b
  | LexerM.PDir c -> "D" ^ String.make 1 (Char.chr (int_of_n c))

let tok = function
  | LexerM.TLParen -> "LPAREN" | LexerM.TRParen -> "RPAREN" | LexerM.TQLParen -> "QMARK_LPAREN"
  | LexerM.TBLParen -> "BANG_LPAREN" | LexerM.TLBracket n -> "LBRACKET:" ^ string_of_int (int_of_nat n)
  | LexerM.TRBracket -> "RBRACKET" | LexerM.TLBrace -> "LBRACE" | LexerM.TRBrace -> "RBRACE"
  | LexerM.TQLBrace -> "QMARK_LBRACE" | LexerM.TBLBrace -> "BANG_LBRACE" | LexerM.TAsterisk -> "ASTERISK"
  | LexerM.TPlus -> "PLUS" | LexerM.TQmark -> "QMARK" | LexerM.TComma -> "COMMA" | LexerM.TDVbar -> "DOUBLE_VBAR"
  | LexerM.TVbar -> "VBAR" | LexerM.TColon -> "COLON" | LexerM.TSemicolon -> "SEMICOLON" | LexerM.TAssign -> "ASSIGN"
  | LexerM.TIf -> "IF" | LexerM.TThen -> "THEN" | LexerM.TElse -> "ELSE" | LexerM.TLet -> "LET" | LexerM.TDebug -> "DEBUG"
  | LexerM.TWord s -> "WORD:" ^ hex_of_bytes s | LexerM.TNumword s -> "NUMWORD:" ^ hex_of_bytes s
  | LexerM.TOp s -> "OP:" ^ hex_of_bytes s | LexerM.TInt s -> "INT:" ^ hex_of_bytes s
  | LexerM.TStr ps -> "STR:" ^ String.concat "," (List.map piece ps)
  | LexerM.TEOF -> "EOF"

let run () =
  try
    while true do
      let b = bytes_of_hex (input_line stdin) in
      let v = match LexerM.analyse b with
        | LexerM.VLexError e -> "LEX:" ^ err_name e
        | LexerM.VSyntaxError -> "SYNTAX"
        | LexerM.VBadInt -> "BADINT"
        | LexerM.VBadLet -> "BADLET"
        | LexerM.VParsed _ -> "OK"
        | LexerM.VFuel -> "FUEL" in
      let ts = match LexerM.lex_all b with
        | LexerM.LexOk ts -> String.concat " " (List.map tok ts)
        | LexerM.LexError (ts, e) -> String.concat " " (List.map tok ts @ ["ERR:" ^ err_name e])
        | LexerM.LexFuel -> "FUEL" in
      print_endline (v ^ "\t" ^ ts)
    done
  with End_of_file -> ()
