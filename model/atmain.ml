(* zwmodel atval: "<name#> <raw...> | <ctx...>" per line -> the model's value.  Conversion only. *)
open Zwm
open Zutil

let n_of_int i = match z_of_int i with Z0 -> N0 | Zpos p -> Npos p | Zneg _ -> N0
let int_of_n = function N0 -> 0 | Npos p -> int_of_pos p
let bytes_of_hex (h : string) : n list =
  List.init (String.length h / 2) (fun i -> n_of_int (int_of_string ("0x" ^ String.sub h (2 * i) 2)))
let hex_of_bytes (b : n list) : string = String.concat "" (List.map (fun c -> Printf.sprintf "%02x" (int_of_n c)) b)

let raw_of = function
  | ["D"; w; bits] -> AtvalM.RData (n_of_int (int_of_string w), z_of_string bits)
  | ["S"; z] -> AtvalM.RSdata (z_of_string z)
  | ["U"; n] -> AtvalM.RUdata (z_of_string n)
  | ["I"; z] -> AtvalM.RImplicit (z_of_string z)
  | ["STR"; h] -> AtvalM.RStr (bytes_of_hex h)
  | ["STR"] -> AtvalM.RStr []
  | ["REF"; o] -> AtvalM.RRef (n_of_int (int_of_string o))
  | ["F"; b] -> AtvalM.RFlag (b = "1")
  | ["A"; n] -> AtvalM.RAddr (z_of_string n)
  | ["O"; n] -> AtvalM.RSecOff (z_of_string n)
  | ["B"; h] -> AtvalM.RBlock (false, bytes_of_hex h)
  | ["B"] -> AtvalM.RBlock (false, [])
  | ["BB"; h] -> AtvalM.RBlock (true, bytes_of_hex h)        (* a block in a big-endian file *)
  | ["BB"] -> AtvalM.RBlock (true, [])
  | ["E"] -> AtvalM.RExprloc
  | _ -> AtvalM.ROther

let ctx_of = function
  | ["P"] -> AtvalM.TPointer | ["NP"] -> AtvalM.TNullptr
  | ["ENC"; n] -> AtvalM.TEnc (n_of_int (int_of_string n))
  | ["EF"; s; u] -> AtvalM.TEnumForms (s = "1", u = "1")
  | ["EP"] -> AtvalM.TEnumeratorPlain
  | ["EU"; n; s; u] -> AtvalM.TEnumUnder (n_of_int (int_of_string n), s = "1", u = "1")
  | _ -> AtvalM.TNoInfo

let dom = function
  | AtvalM.ADec -> "dec" | AtvalM.AHex -> "hex" | AtvalM.ABool -> "bool" | AtvalM.AAddr -> "addr"
  | AtvalM.ALine -> "line" | AtvalM.AColumn -> "column" | AtvalM.AFam n -> "fam:" ^ string_of_int (int_of_n n)

let run () =
  try
    while true do
      let line = input_line stdin in
      let toks = List.filter (fun s -> s <> "") (String.split_on_char ' ' line) in
      let rec split acc = function "|" :: r -> (List.rev acc, r) | x :: r -> split (x :: acc) r | [] -> (List.rev acc, []) in
      let l, c = split [] toks in
      (match l with
       | name :: raw ->
         (match AtvalM.at_value (n_of_int (int_of_string name)) (raw_of raw) (ctx_of c) with
          | AtvalM.ACst (z, d) -> Printf.printf "CST %s %s\n" (string_of_z z) (dom d)
          | AtvalM.AStr b -> Printf.printf "STR %s\n" (hex_of_bytes b)
          | AtvalM.ARef o -> Printf.printf "REF %d\n" (int_of_n o)
          | AtvalM.ALoc -> print_endline "LOC"
          | AtvalM.ABlock b -> Printf.printf "BLOCK %s\n" (hex_of_bytes b)
          | AtvalM.ARanges -> print_endline "RANGES"
          | AtvalM.ANothing -> print_endline "NOTHING"
          | AtvalM.AErr -> print_endline "ERR")
       | [] -> print_endline "?")
    done
  with End_of_file -> ()
