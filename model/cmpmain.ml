(* zwmodel cmp: evaluates the comparison words of the extracted Cmp.v on all
   ordered pairs of a value pool.
   stdin:  line 1: "<dec_rank> <tc_cst> <tc_str> <tc_seq> <tc_aset>"
           then one value per line, as an S-expression:
             (c <value> <arith 0|1> <enc>) | (s <hex bytes>) | (q v v ...) |
             (a s l s l ...) | (o <type code> <id>)
   stdout: one line per ordered pair "i j lt eq gt ne ge le", each 1 / 0 / F. *)
open Zwm
open Zutil
open CmpM

let n_of_int i = match z_of_int i with Z0 -> N0 | Zpos p -> Npos p | Zneg _ -> N0

type sexp = Atom of string | Lst of sexp list

let parse (s : string) : sexp =
  let n = String.length s in
  let pos = ref 0 in
  let rec skip () = if !pos < n && (s.[!pos] = ' ' || s.[!pos] = '\t') then (incr pos; skip ()) in
  let rec item () =
    skip ();
    if !pos < n && s.[!pos] = '(' then begin
      incr pos;
      let items = ref [] in
      let rec loop () =
        skip ();
        if !pos < n && s.[!pos] = ')' then incr pos
        else if !pos >= n then ()
        else (items := item () :: !items; loop ()) in
      loop ();
      Lst (List.rev !items)
    end else begin
      let st = !pos in
      while !pos < n && s.[!pos] <> ' ' && s.[!pos] <> '(' && s.[!pos] <> ')' do incr pos done;
      Atom (String.sub s st (!pos - st))
    end in
  item ()

let rec pairs = function
  | Atom a :: Atom b :: rest -> (z_of_string a, z_of_string b) :: pairs rest
  | _ -> []

let rec value_of (e : sexp) : value =
  match e with
  | Lst [Atom "c"; Atom v; Atom ar; Atom en] ->
    VCst { cv = z_of_string v; arith = (ar = "1"); enc = n_of_int (int_of_string en) }
  | Lst (Atom "s" :: rest) ->
    let h = (match rest with [Atom h] -> h | _ -> "") in
    let l = ref [] in
    let i = ref (String.length h - 2) in
    while !i >= 0 do
      l := n_of_int (int_of_string ("0x" ^ String.sub h !i 2)) :: !l;
      i := !i - 2
    done;
    VStr !l
  | Lst (Atom "q" :: rest) -> VSeq (List.map value_of rest)
  | Lst (Atom "a" :: rest) -> VAset (pairs rest)
  | Lst [Atom "o"; Atom t; Atom i] -> VOpaque (n_of_int (int_of_string t), n_of_int (int_of_string i))
  | _ -> failwith "bad value"

let ob = function Some true -> " 1" | Some false -> " 0" | None -> " F"

let run () =
  let hdr = List.filter (fun s -> s <> "") (String.split_on_char ' ' (input_line stdin)) in
  let ints = List.map int_of_string hdr in
  let (d, tc) = match ints with
    | [d; a; b; c; e] -> (n_of_int d, { tc_cst = n_of_int a; tc_str = n_of_int b; tc_seq = n_of_int c; tc_aset = n_of_int e })
    | _ -> failwith "bad header" in
  let vals = ref [] in
  (try while true do
       let l = String.trim (input_line stdin) in
       if l <> "" then vals := value_of (parse l) :: !vals
     done with End_of_file -> ());
  let vs = Array.of_list (List.rev !vals) in
  let n = Array.length vs in
  let buf = Buffer.create 65536 in
  for i = 0 to n - 1 do
    for j = 0 to n - 1 do
      let a = vs.(i) and b = vs.(j) in
      Buffer.add_string buf (string_of_int i); Buffer.add_char buf ' ';
      Buffer.add_string buf (string_of_int j);
      Buffer.add_string buf (ob (w_lt d tc a b));
      Buffer.add_string buf (ob (w_eq d tc a b));
      Buffer.add_string buf (ob (w_gt d tc a b));
      Buffer.add_string buf (ob (w_ne d tc a b));
      Buffer.add_string buf (ob (w_ge d tc a b));
      Buffer.add_string buf (ob (w_le d tc a b));
      Buffer.add_char buf '\n'
    done;
    if Buffer.length buf > 60000 then (print_string (Buffer.contents buf); Buffer.clear buf)
  done;
  print_string (Buffer.contents buf)
