(* Conversions between the extracted binary integers and text / OCaml ints.
   Parsing and printing only; no arithmetic of the model is re-implemented. *)
open Zwm

let rec pos_of_int (n : int) : positive =
  if n = 1 then XH
  else if n land 1 = 0 then XO (pos_of_int (n lsr 1))
  else XI (pos_of_int (n lsr 1))

let z_of_int (n : int) : z =
  if n = 0 then Z0 else if n > 0 then Zpos (pos_of_int n) else Zneg (pos_of_int (- n))

let rec pos_bits (p : positive) : int =
  match p with XH -> 1 | XO q -> 1 + pos_bits q | XI q -> 1 + pos_bits q

let rec int_of_pos (p : positive) : int =
  match p with XH -> 1 | XO q -> 2 * int_of_pos q | XI q -> 2 * int_of_pos q + 1

let int_of_z (x : z) : int =
  match x with Z0 -> 0 | Zpos p -> int_of_pos p | Zneg p -> - (int_of_pos p)

let e18 = z_of_int 1_000_000_000_000_000_000

(* decimal text (optional leading '-') -> z, any size *)
let z_of_string (s : string) : z =
  let neg = String.length s > 0 && s.[0] = '-' in
  let d = if neg then String.sub s 1 (String.length s - 1) else s in
  let rec go (d : string) : z =
    let n = String.length d in
    if n <= 18 then z_of_int (int_of_string d)
    else
      let hi = String.sub d 0 (n - 18) and lo = String.sub d (n - 18) 18 in
      Z.add (Z.mul (go hi) e18) (z_of_int (int_of_string lo))
  in
  let v = go d in
  if neg then Z.opp v else v

let rec string_of_z (x : z) : string =
  match x with
  | Z0 -> "0"
  | Zneg p -> "-" ^ string_of_z (Zpos p)
  | Zpos p ->
    if pos_bits p <= 61 then string_of_int (int_of_pos p)
    else
      let q = Z.div x e18 and r = Z.modulo x e18 in
      string_of_z q ^ Printf.sprintf "%018d" (int_of_z r)

let rec nat_of_int (n : int) : nat = if n <= 0 then O else S (nat_of_int (n - 1))
let rec int_of_nat (n : nat) : int = match n with O -> 0 | S m -> 1 + int_of_nat m
