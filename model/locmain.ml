(* zwmodel loc: "<opcode> <a> <b>" per line -> the operand values `value` yields.  Conversion only. *)
open Zwm
open Zutil
let n_of_int i = match z_of_int i with Z0 -> N0 | Zpos p -> Npos p | Zneg _ -> N0
let run () =
  try
    while true do
      match String.split_on_char ' ' (String.trim (input_line stdin)) with
      | [c; a; b] ->
        let o = { LocM.o_off = N0; o_code = n_of_int (int_of_string c); o_a = z_of_string a; o_b = z_of_string b } in
        (match LocM.op_values o with
         | None -> print_endline "SPECIAL"
         | Some l -> print_endline ("V " ^ String.concat "," (List.map (fun (z, d) ->
             string_of_z z ^ ":" ^ (match d with LocM.ODec -> "dec" | LocM.OHex -> "hex")) l)))
      | _ -> print_endline "?"
    done
  with End_of_file -> ()
