(* zwmodel tctx: the type context of DW_AT_const_value, from the type DIEs of a unit.
     T <off> <tag> <type off|-> <encoding|-> <0|1: named decltype(nullptr)> <kids: tag:form,tag:-,...|->
     V <type off|->     a DIE (not an enumerator) with that DW_AT_type  -> its context
     E <off>            an enumerator whose parent is the DIE at <off>  -> its context
     R                  forget the type DIEs
   Contexts as the atval sub-command reads them: N P NP "ENC n" "EF s u" "EU n s u" EP, or ERR.
   Conversion only. *)
open Zwm
open Zutil

let n_of_int i = match z_of_int i with Z0 -> N0 | Zpos p -> Npos p | Zneg _ -> N0
let int_of_n = function N0 -> 0 | Npos p -> int_of_pos p
let nopt s = if s = "-" then None else Some (n_of_int (int_of_string s))
let b01 b = if b then "1" else "0"
let fuel = nat_of_int 1000

let show = function
  | None -> "ERR"
  | Some AtvalM.TNoInfo -> "N" | Some AtvalM.TPointer -> "P" | Some AtvalM.TNullptr -> "NP"
  | Some (AtvalM.TEnc e) -> "ENC " ^ string_of_int (int_of_n e)
  | Some (AtvalM.TEnumForms (s, u)) -> "EF " ^ b01 s ^ " " ^ b01 u
  | Some (AtvalM.TEnumUnder (e, s, u)) -> "EU " ^ string_of_int (int_of_n e) ^ " " ^ b01 s ^ " " ^ b01 u
  | Some AtvalM.TEnumeratorPlain -> "EP"

let run () =
  let ts = ref [] in
  try
    while true do
      match List.filter (fun s -> s <> "") (String.split_on_char ' ' (input_line stdin)) with
      | ["R"] -> ts := []
      | ["T"; off; tag; ty; enc; np; kids] ->
        let ks = if kids = "-" then [] else
            List.map (fun k -> match String.split_on_char ':' k with
                | [t; f] -> (n_of_int (int_of_string t), nopt f)
                | _ -> failwith "tctx: bad kid") (String.split_on_char ',' kids) in
        ts := !ts @ [(n_of_int (int_of_string off),
                      { TypeCtxM.td_tag = n_of_int (int_of_string tag); td_type = nopt ty; td_enc = nopt enc; td_nullptr = (np = "1"); td_kids = ks })]
      | ["V"; ty] -> print_endline (show (TypeCtxM.var_ctx fuel !ts (nopt ty)))
      | ["E"; off] ->
        (match TypeCtxM.lookup !ts (n_of_int (int_of_string off)) with
         | Some p -> print_endline (show (TypeCtxM.enumerator_ctx fuel !ts p))
         | None -> print_endline "ERR")
      | _ -> failwith "tctx: bad line"
    done
  with End_of_file -> ()
