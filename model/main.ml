(* zwmodel: command-line front end of the extracted Coq models. *)
let () =
  match Array.to_list Sys.argv with
  | _ :: "int" :: rest -> Intmain.run (List.mem "--spec" rest)
  | _ :: "cov" :: _ -> Covmain.run ()
  | _ :: "cmp" :: _ -> Cmpmain.run ()
  | _ :: "run" :: _ -> Runmain.run ()
  | _ :: "den" :: _ -> Runmain.run ~spec:true ()
  | _ :: "scope" :: _ -> Runmain.run ~scope:true ()
  | _ :: "cli" :: _ -> Climain.run ()
  | _ :: "scon" :: _ -> Sconmain.run ()
  | _ :: "loc" :: _ -> Locmain.run ()
  | _ :: "atval" :: _ -> Atmain.run ()
  | _ :: "dw" :: _ -> Dwmain.run ()
  | _ :: "syn" :: _ -> Synmain.run ()
  | _ :: "lex" :: _ -> Lexmain.run ()
  | _ :: "simp" :: _ -> Runmain.run ~simp:true ()
  | _ :: "quiet" :: _ -> Runmain.run ~quiet:true ()
  | _ -> prerr_endline "usage: zwmodel int [--spec] | cov"; exit 2
