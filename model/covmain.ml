(* zwmodel cov: same protocol as harness/covdrv.cc, answered by the extracted
   Coq model (CovModel.v). *)
open Zwm
open Zutil
open CovM

let show (c : cov) : string =
  match c with
  | [] -> "-"
  | _ -> String.concat "," (List.map (fun (s, l) -> string_of_z s ^ ":" ^ string_of_z l) c)

let one = z_of_int 1

let run () =
  let buf = Buffer.create 65536 in
  (try
     while true do
       let line = input_line stdin in
       let t = Array.of_list (List.filter (fun s -> s <> "") (String.split_on_char ' ' line)) in
       let i = ref 0 in
       let num () = let v = z_of_string t.(!i) in incr i; v in
       let rec run_tokens (c : cov ref) (out : Buffer.t) (nested : bool) : unit =
         if !i >= Array.length t then ()
         else begin
           let op = t.(!i) in
           incr i;
           if op = ";" then (if nested then () else run_tokens c out nested)
           else begin
             (match op with
              | "a" -> let s = num () in let l = num () in c := add !c s l
              | "r" -> let s = num () in let l = num () in
                let (b, c') = remove !c s l in
                c := c'; Buffer.add_string out (if b then "1 " else "0 ")
              | "c" -> let s = num () in let l = num () in
                Buffer.add_string out (if is_covered !c s l then "1 " else "0 ")
              | "o" -> let s = num () in let l = num () in
                Buffer.add_string out (if is_overlap !c s l then "1 " else "0 ")
              | "i" -> let s = num () in let l = num () in
                Buffer.add_string out (show (intersect !c s l) ^ " ")
              | "q" -> let s = num () in let l = num () in
                Buffer.add_string out (if is_covered !c s l then "1 " else "0 ");
                Buffer.add_string out (if is_overlap !c s l then "1 " else "0 ");
                Buffer.add_string out (show (intersect !c s l) ^ " ")
              | "+" | "-" | "&" ->
                let other = ref [] in
                run_tokens other (Buffer.create 16) true;
                if op = "+" then c := add_all !c !other
                else if op = "-" then begin
                  let (b, c') = remove_all !c !other in
                  c := c'; Buffer.add_string out (if b then "1 " else "0 ")
                end else c := w_overlap !c !other
              | "Q" ->
                let b = num () in let n = num () in
                let top = Z.add b n in
                let cs = Buffer.create 64 and os = Buffer.create 64 and is = Buffer.create 256 in
                let s = ref b in
                while Z.leb !s top do
                  let l = ref Z0 in
                  while Z.leb (Z.add !s !l) top do
                    Buffer.add_char cs (if is_covered !c !s !l then '1' else '0');
                    Buffer.add_char os (if is_overlap !c !s !l then '1' else '0');
                    Buffer.add_string is (show (intersect !c !s !l) ^ "|");
                    l := Z.add !l one
                  done;
                  s := Z.add !s one
                done;
                Buffer.add_string out (Buffer.contents cs ^ " " ^ Buffer.contents os ^ " " ^ Buffer.contents is ^ " ")
              | _ -> ());
             if nested && false then () else run_tokens c out nested
           end
         end
       in
       let c = ref [] in
       let out = Buffer.create 256 in
       run_tokens c out false;
       Buffer.add_buffer buf out;
       Buffer.add_string buf ("= " ^ show !c ^ "\n");
       if Buffer.length buf > 60000 then (print_string (Buffer.contents buf); Buffer.clear buf)
     done
   with End_of_file -> ());
  print_string (Buffer.contents buf)
