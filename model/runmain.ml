(* zwmodel run: builds and runs the extracted engine model (Build.v, Engine.v)
   on trees dumped by the implementation's parser.
   stdin:  line 1: "<tc_cst> <tc_str> <tc_seq> <tc_clo> <rank_arith> <rank_bool> <rank_slot> <fuel> <limit> [<code>:x<hex name>]..."
           then one tree per line as an S-expression (see harness/zwdrv.cc sx_tree).
   stdout: one line per tree:
             DONE|FUEL|STUCK|ABORT <events>   or   BUILDERR unbound|rebound|stuck
           events: R[<stack>] (TOS first), E (error line), W (warning line). *)
open Zwm
open Zutil

let n_of_int i = match z_of_int i with Z0 -> N0 | Zpos p -> Npos p | Zneg _ -> N0
let int_of_n = function N0 -> 0 | Npos p -> int_of_pos p

type sexp = Atom of string | Lst of sexp list

let parse (s : string) : sexp =
  let n = String.length s in
  let pos = ref 0 in
  let rec skip () = if !pos < n && (s.[!pos] = ' ' || s.[!pos] = '\t') then (incr pos; skip ()) in
  let rec item () =
    skip ();
    if !pos < n && s.[!pos] = '(' then begin
      incr pos;
      let items = ref [] in
      let rec loop () =
        skip ();
        if !pos < n && s.[!pos] = ')' then incr pos
        else if !pos >= n then ()
        else (items := item () :: !items; loop ()) in
      loop ();
      Lst (List.rev !items)
    end else begin
      let st = !pos in
      while !pos < n && s.[!pos] <> ' ' && s.[!pos] <> '(' && s.[!pos] <> ')' do incr pos done;
      Atom (String.sub s st (!pos - st))
    end in
  item ()

(* "x<hex>" -> list of byte codes *)
let bytes_of_xhex (h : string) : n list =
  let l = ref [] in
  let i = ref (String.length h - 2) in
  while !i >= 1 do
    l := n_of_int (int_of_string ("0x" ^ String.sub h !i 2)) :: !l;
    i := !i - 2
  done;
  !l

let string_of_xhex (h : string) : string =
  String.concat "" (List.map (fun c -> String.make 1 (Char.chr (int_of_n c))) (bytes_of_xhex h))

let hex_of_bytes (b : n list) : string =
  String.concat "" (List.map (fun c -> Printf.sprintf "%02x" (int_of_n c)) b)

(* domain names <-> cdom; unknown names are interned as named families *)
let fam_tab : (string, int) Hashtbl.t = Hashtbl.create 16
let fam_names : (int, string) Hashtbl.t = Hashtbl.create 16

let dom_of_name (nm : string) : ValueM.cdom =
  match nm with
  | "dec" -> ValueM.DDec | "hex" -> ValueM.DHex | "oct" -> ValueM.DOct | "bin" -> ValueM.DBin
  | "pos" -> ValueM.DPos | "bool" -> ValueM.DBool | "T_*" -> ValueM.DSlot
  | _ ->
    let id = (try Hashtbl.find fam_tab nm with Not_found ->
        let id = Hashtbl.length fam_tab in
        Hashtbl.add fam_tab nm id; Hashtbl.add fam_names id nm; id) in
    ValueM.DNamed (n_of_int id)

let name_of_dom (d : ValueM.cdom) : string =
  match d with
  | ValueM.DDec -> "dec" | ValueM.DHex -> "hex" | ValueM.DOct -> "oct" | ValueM.DBin -> "bin"
  | ValueM.DPos -> "pos" | ValueM.DBool -> "bool" | ValueM.DSlot -> "T_*"
  | ValueM.DNamed f -> (try Hashtbl.find fam_names (int_of_n f) with Not_found -> "?")

let starts_with p s = String.length s >= String.length p && String.sub s 0 (String.length p) = p

let builtin_of_name (nm : string) : TreeM.tbuiltin =
  (* "pred_pos<N>", "not<pred_pos<N>>", "drop_below<N>" *)
  let num s = let b = String.index s '<' in
    let e = String.index_from s b '>' in int_of_string (String.sub s (b + 1) (e - b - 1)) in
  if starts_with "pred_pos<" nm then TreeM.BPredPos (true, n_of_int (num nm))
  else if starts_with "not<pred_pos<" nm then
    TreeM.BPredPos (false, n_of_int (num (String.sub nm 4 (String.length nm - 4))))
  else if starts_with "drop_below<" nm then TreeM.BDropBelow (nat_of_int (num nm))
  else failwith ("unknown planted builtin " ^ nm)

let block_counter = ref 0

let rec tree_of (e : sexp) : TreeM.tree =
  match e with
  | Lst (Atom "CAT" :: l) -> TreeM.TCat (List.map tree_of l)
  | Lst (Atom "ALT" :: l) -> TreeM.TAlt (List.map tree_of l)
  | Lst (Atom "OR" :: l) -> TreeM.TOr (List.map tree_of l)
  | Lst [Atom "CAPTURE"; c] -> TreeM.TCapture (tree_of c)
  | Lst [Atom "SUBX"; Atom k; c] -> TreeM.TSubx (nat_of_int (int_of_string k), tree_of c)
  | Lst [Atom "IFELSE"; c; a; b] -> TreeM.TIfElse (tree_of c, tree_of a, tree_of b)
  | Lst [Atom "SCOPE"; c] -> TreeM.TScope (tree_of c)
  | Lst [Atom "BLOCK"; c] -> let id = !block_counter in incr block_counter; TreeM.TBlock (n_of_int id, tree_of c)
  | Lst [Atom "BIND"; Atom n] -> TreeM.TBind (bytes_of_xhex n)
  | Lst [Atom "READ"; Atom n] -> TreeM.TRead (bytes_of_xhex n)
  | Lst [Atom "NOP"] -> TreeM.TNop
  | Lst [Atom "STAR"; c] -> TreeM.TStar (tree_of c)
  | Lst [Atom "PLUS"; c] -> TreeM.TPlus (tree_of c)
  | Lst [Atom "ASSERT"; c] -> TreeM.TAssert (tree_of c)
  | Lst [Atom "EMPTYLIST"] -> TreeM.TEmptyList
  | Lst [Atom "PAND"; a; b] -> TreeM.TPredAnd (tree_of a, tree_of b)
  | Lst [Atom "POR"; a; b] -> TreeM.TPredOr (tree_of a, tree_of b)
  | Lst [Atom "PNOT"; a] -> TreeM.TPredNot (tree_of a)
  | Lst [Atom "PSUBX"; c] -> TreeM.TPredSubx (tree_of c)
  | Lst [Atom "CONST"; Atom v; Atom d] -> TreeM.TConst (z_of_string v, dom_of_name (string_of_xhex d))
  | Lst [Atom "STR"; Atom s] -> TreeM.TStr (bytes_of_xhex s)
  | Lst (Atom "FORMAT" :: l) -> TreeM.TFormat (List.map tree_of l)
  | Lst [Atom "DEBUG"] -> TreeM.TDebug
  | Lst [Atom "BUILTIN"; Atom n] -> TreeM.TBuiltin (builtin_of_name (string_of_xhex n))
  | _ -> failwith "bad tree"

let rec show_value (v : ValueM.value) : string =
  match v with
  | ValueM.VCst (z, d, p) -> Printf.sprintf "c:%s:%s:%d" (string_of_z z) (name_of_dom d) (int_of_n p)
  | ValueM.VStr (s, p) -> Printf.sprintf "s:%s:%d" (hex_of_bytes s) (int_of_n p)
  | ValueM.VSeq (l, p) -> Printf.sprintf "q:[%s]:%d" (String.concat "," (List.map show_value l)) (int_of_n p)
  | ValueM.VClo (_, _, p) -> Printf.sprintf "clo:%d" (int_of_n p)

let show_stack (s : ValueM.value list) : string = String.concat " " (List.map show_value s)

let show_events (evs : EngineM.event list) : string =
  String.concat " " (List.map (fun e ->
      match e with
      | EngineM.EvOut s -> "R[" ^ show_stack s ^ "]"
      | EngineM.EvSoft WordsM.SErr -> "E"
      | EngineM.EvSoft WordsM.SWarn -> "W") evs)

let show_devs (evs : DenM.dev list) : string =
  String.concat " " (List.map (fun e ->
      match e with
      | DenM.DOut (s, _) -> "R[" ^ show_stack s ^ "]"
      | DenM.DSoft WordsM.SErr -> "E"
      | DenM.DSoft WordsM.SWarn -> "W") evs)

let run ?(spec = false) ?(scope = false) ?(simp = false) ?(quiet = false) () =
  let toks = List.filter (fun s -> s <> "") (String.split_on_char ' ' (input_line stdin)) in
  (* tokens "<code>:x<hex name>" name the other registered value types *)
  let others = List.filter_map (fun t ->
      match String.index_opt t ':' with
      | Some i -> Some (n_of_int (int_of_string (String.sub t 0 i)), bytes_of_xhex (String.sub t (i + 1) (String.length t - i - 1)))
      | None -> None) toks in
  let hdr = List.map int_of_string (List.filter (fun t -> not (String.contains t ':')) toks) in
  match hdr with
  | [a; b; c; d; ra; rb; rs; fuel; limit] ->
    let tc = { ValueM.tc_cst = n_of_int a; tc_str = n_of_int b; tc_seq = n_of_int c; tc_clo = n_of_int d; tc_other = others } in
    let rank (dm : ValueM.cdom) : n =
      match dm with
      | ValueM.DBool -> n_of_int rb
      | ValueM.DSlot -> n_of_int rs
      | ValueM.DNamed f -> n_of_int (1000 + int_of_n f)
      | _ -> n_of_int ra in
    let p = { WordsM.p_tc = tc; p_rank = rank } in
    let fuel = nat_of_int fuel and limit = nat_of_int limit in
    (try
       while true do
         let line = input_line stdin in
         let out =
           (try
              block_counter := 0;
              if simp then begin
                (* two trees separated by a TAB: as parsed, and as simplified by the implementation *)
                match String.split_on_char '\t' line with
                | [a; b] ->
                  let ta = tree_of (parse a) in
                  block_counter := 0;
                  let tb = tree_of (parse b) in
                  if SimplifyM.simplify ta = tb then "EQ" else "NE"
                | _ -> "MODELERR bad simp line"
              end else
              let t = tree_of (parse line) in
              if scope then
                (match ScopeM.well_scoped tc t with
                 | None -> "OK"
                 | Some ScopeM.SUnbound -> "unbound"
                 | Some ScopeM.SRebound -> "rebound"
                 | Some ScopeM.SBadTree -> "badtree")
              else if spec then
                (match DenM.den p t fuel t [] [] with
                 | DenM.DFuel -> "FUEL "
                 | DenM.DStuck -> "STUCK "
                 | DenM.DOk (evs, false) -> "DONE " ^ show_devs evs
                 | DenM.DOk (evs, true) -> "ABORT " ^ show_devs evs)
              else
              if quiet then
                (match BuildM.build_program tc t with
                 | BuildM.BErr _ -> "BUILDERR x"
                 | BuildM.BOk (m, blks) ->
                   if not (QuietM.quietb m && List.for_all QuietM.quietb blks) then "NE"
                   else if QuietM.has_format m || List.exists QuietM.has_format blks then "OK"   (* pristine; with format ops *)
                   else "EQ")
              else
              match BuildM.build_program tc t with
              | BuildM.BErr BuildM.BUnbound -> "BUILDERR unbound"
              | BuildM.BErr BuildM.BRebound -> "BUILDERR rebound"
              | BuildM.BErr BuildM.BStuck -> "BUILDERR stuck"
              | BuildM.BOk (m, blks) ->
                (match EngineM.run p blks limit fuel m [] with
                 | EngineM.ODone evs -> "DONE " ^ show_events evs
                 | EngineM.OFuel evs -> "FUEL " ^ show_events evs
                 | EngineM.OStuck evs -> "STUCK " ^ show_events evs
                 | EngineM.OAbort evs -> "ABORT " ^ show_events evs)
            with Failure msg -> "MODELERR " ^ msg
               | Stack_overflow -> "FUEL"
               | Out_of_memory -> "FUEL") in
         print_string (out ^ "\n")
       done
     with End_of_file -> ())
  | _ -> failwith "bad header"
