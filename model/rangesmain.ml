(* zwmodel ranges: one range list per line, "<start> <end> <start> <end> ..." (resolved,
   absolute) -> the address set die_ranges builds, as <start>:<length>,... or "-".
   Conversion only. *)
open Zwm
open Zutil

let show (c : CovM.cov) : string =
  match c with
  | [] -> "-"
  | _ -> String.concat "," (List.map (fun (s, l) -> string_of_z s ^ ":" ^ string_of_z l) c)

let run () =
  try
    while true do
      let t = List.filter (fun s -> s <> "") (String.split_on_char ' ' (input_line stdin)) in
      let rec pairs = function
        | a :: b :: rest -> (z_of_string a, z_of_string b) :: pairs rest
        | _ -> [] in
      print_endline (show (RangesM.die_ranges (pairs t)))
    done
  with End_of_file -> ()
