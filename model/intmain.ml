(* zwmodel int: same protocol as harness/intdrv.cc, answered by the extracted
   Coq model (IntModel.v).  With --spec the arithmetic columns are answered by
   the specification instead (exact Z arithmetic + range check). *)
open Zwm
open Zutil
open IntM

let show_res (r : res) : string =
  match r with
  | Ok v -> if wfb v then string_of_z (ival v) else "ILLFORMED"
  | Err -> "E"

let spec_show (x : z) : string = if in_rangeb x then string_of_z x else "E"

let b2s b = if b then " 1" else " 0"

let run spec =
  let n = int_of_string (String.trim (input_line stdin)) in
  let ops = Array.init n (fun _ ->
      let l = String.trim (input_line stdin) in
      match String.split_on_char ' ' l with
      | [us; ss] -> { u = z_of_string us; sg = (ss = "1") }
      | _ -> failwith ("bad operand line: " ^ l)) in
  let pairs = ref [] in
  (try
     while true do
       let l = String.trim (input_line stdin) in
       match String.split_on_char ' ' l with
       | ["P"; i; j] -> pairs := (int_of_string i, int_of_string j) :: !pairs
       | _ -> ()
     done
   with End_of_file -> ());
  let buf = Buffer.create 65536 in
  let one i j =
    let a = ops.(i) and b = ops.(j) in
    Buffer.add_string buf (string_of_int i); Buffer.add_char buf ' ';
    Buffer.add_string buf (string_of_int j);
    let put s = Buffer.add_char buf ' '; Buffer.add_string buf s in
    if spec then begin
      let x = ival a and y = ival b in
      put (spec_show (Z.add x y));
      put (spec_show (Z.sub x y));
      put (spec_show (Z.mul x y));
      put (if Z.eqb y Z0 then "E" else spec_show (Z.div x y));
      put (if Z.eqb y Z0 then "E" else spec_show (Z.modulo x y));
      put (spec_show (Z.opp x));
      Buffer.add_string buf (b2s (Z.ltb x y));
      Buffer.add_string buf (b2s (Z.ltb y x));
      Buffer.add_string buf (b2s (Z.leb x y));
      Buffer.add_string buf (b2s (Z.leb y x));
      Buffer.add_string buf (b2s (Z.eqb x y));
      Buffer.add_string buf (b2s (not (Z.eqb x y)))
    end else begin
      put (show_res (add a b));
      put (show_res (sub a b));
      put (show_res (mul a b));
      put (show_res (div a b));
      put (show_res (modulo a b));
      put (show_res (neg a));
      Buffer.add_string buf (b2s (lt a b));
      Buffer.add_string buf (b2s (gt a b));
      Buffer.add_string buf (b2s (le a b));
      Buffer.add_string buf (b2s (ge a b));
      Buffer.add_string buf (b2s (eq a b));
      Buffer.add_string buf (b2s (ne a b))
    end;
    Buffer.add_char buf '\n';
    if Buffer.length buf > 60000 then (print_string (Buffer.contents buf); Buffer.clear buf)
  in
  (match List.rev !pairs with
   | [] -> for i = 0 to n - 1 do for j = 0 to n - 1 do one i j done done
   | l -> List.iter (fun (i, j) -> one i j) l);
  print_string (Buffer.contents buf)
