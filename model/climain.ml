(* zwmodel cli: one case per line, space-separated fields
     opts=<subset of qscHh>  parse=<0|1>  files=<id>:<val or ->,...  args=a<v,v>;a<v>;a;...  (one a-prefixed list per argument)
     exec=<v.v.v>:<0|1 raised>:<rec|rec...>/...      (rec = r<v.v.v>, TOS first; key = combination)
   answers  status=<n> out=<items> err=<items>   (or FUEL).  Conversion only. *)
open Zwm
open Zutil

let n_of_int i = match z_of_int i with Z0 -> N0 | Zpos p -> Npos p | Zneg _ -> N0
let int_of_n = function N0 -> 0 | Npos p -> int_of_pos p
let split c s = if s = "" then [] else String.split_on_char c s
let ids s = List.map (fun x -> n_of_int (int_of_string x)) (split '.' s)
let show_ids l = String.concat "." (List.map (fun v -> string_of_int (int_of_n v)) l)

let run () =
  try
    while true do
      let line = input_line stdin in
      let f = Hashtbl.create 8 in
      List.iter (fun kv -> match String.index_opt kv '=' with
          | Some i -> Hashtbl.replace f (String.sub kv 0 i) (String.sub kv (i + 1) (String.length kv - i - 1))
          | None -> ()) (String.split_on_char ' ' line);
      let get k = try Hashtbl.find f k with Not_found -> "" in
      let o = get "opts" in
      let has c = String.contains o c in
      let opts = { CliM.o_quiet = has 'q'; o_nomsg = has 's'; o_count = has 'c'; o_withhdr = has 'H'; o_nohdr = has 'h' } in
      let files = List.map (fun x -> match String.split_on_char ':' x with
          | [id; "-"] -> (n_of_int (int_of_string id), CliM.FBad)
          | [id; v] -> (n_of_int (int_of_string id), CliM.FOpen (n_of_int (int_of_string v)))
          | _ -> failwith "files") (split ',' (get "files")) in
      let args = List.map (fun a -> List.map (fun x -> n_of_int (int_of_string x)) (split ',' (String.sub a 1 (String.length a - 1))))
          (if get "args" = "" then [] else String.split_on_char ';' (get "args")) in
      let tbl = Hashtbl.create 16 in
      List.iter (fun e -> match String.split_on_char ':' e with
          | [k; r; recs] -> Hashtbl.replace tbl k (CliM.ExecRes (List.map (fun s -> ids (String.sub s 1 (String.length s - 1))) (split '|' recs), r = "1"))
          | _ -> failwith "exec") (split '/' (get "exec"));
      let exec cur = try Hashtbl.find tbl (show_ids cur) with Not_found -> CliM.ExecRes ([], false) in
      (match CliM.cli opts (get "parse" <> "0") files args exec with
       | None -> print_endline "FUEL"
       | Some r ->
         let oi = function
           | CliM.OutHeader h -> "H" ^ show_ids h
           | CliM.OutSep -> "S"
           | CliM.OutVal v -> "V" ^ string_of_int (int_of_n v)
           | CliM.OutCount (h, n) -> "C" ^ (match h with Some h -> "H" ^ show_ids h | None -> "-") ^ ":" ^ string_of_int (int_of_n n) in
         let ei = function
           | CliM.ErrOpen fl -> "O" ^ string_of_int (int_of_n fl)
           | CliM.ErrExec h -> "X" ^ show_ids h
           | CliM.ErrFatal -> "F" in
         Printf.printf "status=%d out=%s err=%s\n" (int_of_n r.CliM.status)
           (String.concat "," (List.map oi r.CliM.stdout)) (String.concat "," (List.map ei r.CliM.stderr)))
    done
  with End_of_file -> ()
