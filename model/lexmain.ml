(* zwmodel lex: lines "e <hex>" (brief rendering of the bytes), "l <hex>"
   (lex a string literal at the head of the text), "p <hex>" (parse_int of a
   literal), "r <radix> <decimal>" (render an integer).  Conversion only. *)
open Zwm
open Zutil

let n_of_int i = match z_of_int i with Z0 -> N0 | Zpos p -> Npos p | Zneg _ -> N0
let int_of_n = function N0 -> 0 | Npos p -> int_of_pos p
let bytes_of_hex (h : string) : n list =
  List.init (String.length h / 2) (fun i -> n_of_int (int_of_string ("0x" ^ String.sub h (2 * i) 2)))
let hex_of_bytes (b : n list) : string =
  String.concat "" (List.map (fun c -> Printf.sprintf "%02x" (int_of_n c)) b)

let dom_name = function
  | ValueM.DDec -> "dec" | ValueM.DHex -> "hex" | ValueM.DOct -> "oct" | ValueM.DBin -> "bin" | _ -> "?"

let run () =
  try
    while true do
      let line = input_line stdin in
      let out =
        match String.split_on_char ' ' line with
        | ["e"; h] -> hex_of_bytes (EscapeM.esc (bytes_of_hex h))
        | ["l"; h] ->
          (match EscapeM.lex_string (bytes_of_hex h) with
           | None -> "NONE"
           | Some (EscapeM.LexLit (c, r)) -> "LIT " ^ hex_of_bytes c ^ " " ^ hex_of_bytes r
           | Some EscapeM.LexFormat -> "FORMAT"
           | Some EscapeM.LexEOF -> "EOF")
        | ["p"; h] ->
          (match ParseIntM.parse_int (bytes_of_hex h) with
           | ParseIntM.PInt (z, d) -> "INT " ^ string_of_z z ^ " " ^ dom_name d
           | _ -> "ERR")
        | ["r"; radix; z] ->
          let z = z_of_string z in
          hex_of_bytes (match radix with
              | "dec" -> RadixM.show_dec z | "hex" -> RadixM.show_hex z
              | "oct" -> RadixM.show_oct z | _ -> RadixM.show_bin z)
        | _ -> "?"
      in
      print_endline out
    done
  with End_of_file -> ()
