#!/bin/bash
# Validate /repo (HEAD, or working tree with --worktree) against the pinned
# baseline test suite in a scratch copy (guard off), then remove the copy.
set -u
SRC=${DWGREP_REPO:-/repo}
D=$(mktemp -d /tmp/dwgrep-baseline-XXXXXX)
trap 'rm -rf "$D"' EXIT
mkdir -p "$D/src" "$D/b"
if [ "${1:-}" = "--worktree" ]; then
  (cd "$SRC" && git ls-files -z | xargs -0 tar -cf - ) | tar -x -C "$D/src"
else
  git -C "$SRC" archive HEAD | tar -x -C "$D/src"
fi
cd "$D/b"
cmake -G Ninja -DCMAKE_BUILD_TYPE=RelWithDebInfo ../src > cmake.log 2>&1 || { tail -20 cmake.log; exit 2; }
ninja -k0 > ninja.log 2>&1
ctest -j8 --timeout 900 --output-junit "$D/junit.xml" > ctest.log 2>&1
for t in test-dw test-op test-value-cst test-builtin-cmp test-coverage; do
  [ -x libzwerg/$t ] && ./libzwerg/$t --test-case-directory=$D/src/tests/ --gtest_output=xml:$D/g-$t.xml > /dev/null 2>&1
done
python3 - "$D" <<'PY'
import sys, json, glob, xml.etree.ElementTree as ET
base = set(json.load(open('/root/.vp/BASELINE.json'))['stable_pass'])
D = sys.argv[1]
st = {}
for tc in ET.parse(D + '/junit.xml').getroot().iter('testcase'):
    ok = tc.find('failure') is None and tc.find('error') is None and tc.get('status', 'run') in ('run', 'passed')
    st[tc.get('name') + '::' + tc.get('name')] = ok
for f in glob.glob(D + '/g-*.xml'):
    for tc in ET.parse(f).getroot().iter('testcase'):
        ok = tc.find('failure') is None and tc.find('error') is None
        st[tc.get('classname') + '::' + tc.get('name')] = ok
passed = {k for k, v in st.items() if v}
missing = sorted(base - passed)
print("baseline tests: %d, passing now: %d, baseline tests not passing: %s" % (len(base), len(base & passed), missing))
sys.exit(1 if missing else 0)
PY
rc=$?
exit $rc
