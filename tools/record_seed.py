#!/usr/bin/env python3
"""record_seed.py <prop> <n> <patch> <demo> <needs> <detected_by> [note]
Stores a confirmed seeded change under /verif/seeded/<prop>-<n>/."""
import json, os, shutil, sys
prop, n, patch, demo, needs, detected = sys.argv[1:7]
note = sys.argv[7] if len(sys.argv) > 7 else ""
d = "/verif/seeded/%s-%s" % (prop, n)
os.makedirs(d, exist_ok=True)
shutil.copy(patch, d + "/patch.diff")
shutil.copy(demo, d + "/" + os.path.basename(demo))
meta = {
    "property": prop,
    "breaks": open(patch).read().split("\n")[0:1],
    "needs_to_manifest": needs,
    "confirmed": "tools/confirm_seed.sh in the sub-agent's scratch worktree: patch applies, tree builds, all 66 baseline tests pass with it (tools/baseline.sh), the demonstration exits non-zero with the patch and 0 without it",
    "check_result": detected,
    "note": note,
    "origin": "written by an independent sub-agent that saw only the property text and a scratch worktree",
}
meta["breaks"] = "see patch.diff"
json.dump(meta, open(d + "/meta.json", "w"), indent=1)
print("recorded", d)
