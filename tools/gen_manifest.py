#!/usr/bin/env python3
"""Regenerate MANIFEST.json from checks/registry.py (single source of truth)."""
import json
import os
import sys

sys.path.insert(0, os.path.dirname(os.path.dirname(os.path.abspath(__file__))))
from checks import registry

V = os.path.dirname(os.path.dirname(os.path.abspath(__file__)))
props = [json.loads(l) for l in open(os.path.join(V, "properties.jsonl"))]
ids = [p["id"] for p in props]

checks = []
for pid in ids:
    c = registry.CHECKS.get(pid)
    if not c:
        continue
    checks.append({
        "property_id": pid,
        "quick_cmd": "./check %s --tier quick" % pid,
        "thorough_cmd": "./check %s --tier thorough" % pid,
        "evidence_file": "evidence/%s.json" % pid,
        "replay_cmd_template": "./check %s --replay {path}" % pid,
        "engine": "coq+correspondence",
        "level_claimed": {"category": "proof", "text": c["text"], "design_ref": c.get("design_ref", "DESIGN.md §5 " + pid)},
        "level_note": c["note"],
        "technique": c["technique"],
    })

na = [{"property_id": pid, "reason": registry.NOT_CLAIMED.get(pid, "check not built yet (planned; see DESIGN.md §6)")}
      for pid in ids if pid not in registry.CHECKS]

m = {
    "version": 1,
    "setup_cmd": "./check --setup",
    "hooks": {
        "guard": "DWGREP_VERIF",
        "enable": "-DDWGREP_VERIF in harness/build.mk (CXXFLAGS of every object compiled from /repo)",
        "baseline_off_cmd": "cmake --build /repo/_build -- -k0; ctest --test-dir /repo/_build -j8 --timeout 900",
        "source_commits": registry.HOOK_COMMITS,
        "add_only": True,
    },
    "engines": [
        {"name": "coq", "path": "coq/", "serves_properties": sorted(registry.CHECKS), "kind_free_text": "Coq 8.16.1 development: hand-written Gallina models of the C++ mechanisms + theorems (props/Properties_<id>.v)"},
        {"name": "zwmodel", "path": "model/ + coq/extract/", "serves_properties": sorted(registry.CHECKS), "kind_free_text": "OCaml driver around the extracted models (ExtrOcamlBasic)"},
        {"name": "drivers", "path": "harness/", "serves_properties": sorted(registry.CHECKS), "kind_free_text": "C++ drivers linked against objects compiled from /repo's working tree (intdrv, covdrv, zwdrv) + the dwgrep CLI"},
    ],
    "checks": checks,
    "not_applicable": na,
    "notes": "Every check rebuilds the implementation from /repo's working tree into /verif/build, rebuilds the Coq development, re-extracts the model and runs model and implementation on the same inputs. See DESIGN.md.",
}
json.dump(m, open(os.path.join(V, "MANIFEST.json"), "w"), indent=1)
print("MANIFEST.json: %d checks, %d not claimed" % (len(checks), len(na)))
