#!/usr/bin/env python3
"""seed_prompt.py <Cxx> ...  -- for each property: a scratch worktree /tmp/seed-<Cxx> of /repo's HEAD and
/tmp/seed-<Cxx>/OUT/PROMPT.txt for an independent sub-agent (the property's text, the places and inputs of the
seeded changes recorded so far - nothing else from /verif)."""
import json, os, re, subprocess, sys, glob

props = {json.loads(l)["id"]: json.loads(l) for l in open("/verif/properties.jsonl")}
for pid in sys.argv[1:]:
    p = props[pid]
    wt = "/tmp/seed-%s" % pid
    if not os.path.exists(wt):
        subprocess.run(["git", "-C", "/repo", "worktree", "add", "--detach", wt, "HEAD"], check=True, stdout=subprocess.DEVNULL, stderr=subprocess.DEVNULL)
    os.makedirs(wt + "/OUT", exist_ok=True)
    earlier = []
    for d in sorted(glob.glob("/verif/seeded/%s-*" % pid), key=lambda x: int(x.rsplit("-", 1)[1])):
        meta = json.load(open(d + "/meta.json"))
        files = sorted(set(re.findall(r"^diff --git a/(\S+)", open(d + "/patch.diff").read(), re.M)))
        earlier.append("  - %s: %s" % (", ".join(files), meta.get("needs_to_manifest", "")[:260]))
    q = p.get("quantifier") or {}
    anchors = p.get("anchors") or {}
    text = f"""You are testing how well a verification effort detects regressions in the open-source project pmachata/dwgrep (a stack-based query language, Zwerg, for DWARF debuginfo; C++14, uses elfutils libdw/libelf). You have your own scratch git worktree of the project at {wt} (detached HEAD). Work ONLY inside {wt}; never touch /repo or /verif, never read anything under /verif.

The property under study ("{p['title']}"):

{p['statement']}

It is meant to hold for: {q.get('text', '') if isinstance(q, dict) else q}
Code most relevant: {', '.join(anchors.get('files', [])) if isinstance(anchors, dict) else anchors}.

Your task: produce TWO independent, realistic code changes ("mutants") to the project, each of which BREAKS this property while (a) the project still compiles, (b) the project's existing test suite still passes exactly as before, and (c) the breakage is SUBTLE: it needs something quite specific to manifest (a particular input shape, nesting, option combination, boundary value, size, or history of calls) - something that example-based tests and also systematic generated testing with the obvious generators would be unlikely to hit, but that a user could realistically run into. Make them look like plausible maintenance slips (an optimisation with a wrong precondition, a refactoring that drops a case, an off-by-one at a boundary, a cache or state that is not reset, a wrong type width, a wrong operand order, an early return, a wrong default), different in kind and in different files/functions.

Earlier rounds already produced the following changes for this property (file: what it took to show), and the verification effort now covers those kinds of input. Yours must be DIFFERENT in location and in the kind of input needed - study the code for paths, options, value kinds, DWARF/ELF features or interactions between features that none of these touch; read the statement again clause by clause and look for a clause none of them attacks:
{chr(10).join(earlier)}

Do not add dead code or comments announcing the bug.

Build notes: the offline sandbox has cmake, ninja, g++, flex, bison, gawk, elfutils dev headers, gtest. Build in a scratch dir inside your worktree, e.g. `mkdir {wt}/_b && cd {wt}/_b && cmake -G Ninja -DCMAKE_BUILD_TYPE=RelWithDebInfo .. && ninja -k0 -j3` (the libzwerg.so link step fails because of a linker-map path quirk - that is expected on unmodified code too; the unit-test binaries still build) and run `ctest -j3 --timeout 900`. Record which tests pass on the unmodified code first; the same set must pass with each mutant. The `dwgrep` CLI can be linked by hand from the object files: `g++ -o dwgrep-cli dwgrep/CMakeFiles/dwgrep.dir/dwgrep.cc.o dwgrep/CMakeFiles/AuxLib.dir/options.cc.o $(find libzwerg/CMakeFiles dwgrep/CMakeFiles/AuxLib.dir -name '*.o' | grep -v test | grep -v options.cc.o | sort -u) -ldw -lelf` (adjust until it links; drop duplicate objects). tests/tests.sh can be run by hand against it: `bash tests/tests.sh /path/to/dwgrep-cli` from the tests directory. DWARF test inputs can be made with `gcc -g -c`, or with hand-written assembler (`as`) emitting .debug_info/.debug_abbrev bytes; `readelf`, `ar` and `ld` are available.

Deliverables, all under {wt}/OUT/:
  mutant1.diff, mutant2.diff  - each a `git diff` against the worktree HEAD that applies with `git apply` on a clean checkout (independently of the other);
  demo1.sh, demo2.sh          - a script that, run in the worktree with the respective mutant applied and built, exits non-zero and prints what went wrong, and exits 0 on the unmodified code. It should (re)build what it needs itself from the current state of the worktree.
  README.md                   - per mutant: what it changes, why that breaks the property, what is needed for it to manifest, and the evidence that the build and all previously passing tests still pass with it.
Leave the worktree itself clean (`git checkout -- .`) when you finish; keep only OUT/ and your build dir. Confirm each demo both ways (fails with mutant, passes without) before finishing. In your final answer give a 10-line summary of the two mutants.
"""
    open(wt + "/OUT/PROMPT.txt", "w").write(text)
    print(pid, len(earlier), "earlier changes listed")
