#!/bin/bash
# usage: tools/try_seed.sh <patch.diff> <Cxx> [tier]
# Applies the patch to /repo, runs the check, restores /repo.  Prints the
# check's tail and its exit status.
set -u
P=$(readlink -f "$1"); ID=$2; TIER=${3:-quick}
cd /repo || exit 9
if ! git diff --quiet; then echo "/repo has local changes; refusing"; exit 9; fi
git apply "$P" || { echo "patch does not apply"; exit 9; }
cd /verif && ./check "$ID" --tier "$TIER" > /tmp/try_seed.log 2>&1
rc=$?
git -C /repo checkout -- .
tail -6 /tmp/try_seed.log | cut -c1-400
echo "exit=$rc"
# restore the evidence of the unchanged tree
git -C /verif checkout -- evidence/$ID.json 2>/dev/null
exit 0
