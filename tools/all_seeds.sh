#!/bin/bash
# usage: tools/all_seeds.sh [Cxx ...]   -- applies every stored seed to /repo in turn, runs the quick tier of
# its property's check, restores /repo.  Prints one line per seed: detected / MISSED / does-not-apply.
cd /verif || exit 9
sel="$*"
for d in seeded/*/; do
  id=$(basename "$d"); prop=${id%-*}
  if [ -n "$sel" ] && ! echo " $sel " | grep -q " $prop "; then continue; fi
  out=$(tools/try_seed.sh "$d/patch.diff" "$prop" 2>&1)
  if echo "$out" | grep -q "patch does not apply"; then echo "$id does-not-apply"
  elif echo "$out" | grep -q "exit=1"; then echo "$id detected"
  else echo "$id MISSED: $(echo "$out" | tail -2 | head -1 | cut -c1-120)"; fi
  rm -f replays/$prop-* 2>/dev/null
done
git -C /verif checkout -- evidence coq/gen/VocTable.v 2>/dev/null
