#!/bin/bash
# usage: tools/seed_sweep.sh "<seeds>" [Cxx ...] -- quick tier of every check under several VERIF_SEED values
cd /verif || exit 9
seeds=${1:-"1 2 3"}; shift
checks=${*:-"C01 C02 C03 C04 C05 C06 C07 C08 C09 C10 C11 C12 C13 C14 C15 C16 C17 C18 C19 C20"}
for s in $seeds; do for c in $checks; do
  out=$(VERIF_SEED=$s timeout 3600 ./check $c 2>&1 | tail -1 | cut -c1-160)
  echo "seed=$s $out"
done; done
