#!/bin/bash
# usage: confirm_seed.sh <worktree> <patch> <demo>
# Confirms in the scratch worktree that (1) the patch applies and the tree
# builds, (2) the 66 baseline tests still pass with it, (3) the demo fails
# with it and passes without it.  Leaves the worktree's tracked files clean.
set -u
WT=$1; P=$(readlink -f "$2"); DEMO=$(readlink -f "$3")
cd "$WT" || exit 9
git checkout -q -- . ; git apply "$P" || { echo "CONFIRM: patch does not apply"; exit 1; }
DWGREP_REPO=$WT /verif/tools/baseline.sh --worktree > /tmp/confirm-baseline.$$ 2>&1; brc=$?
tail -1 /tmp/confirm-baseline.$$
bash "$DEMO" > /tmp/confirm-demo-with.$$ 2>&1; with=$?
git checkout -q -- .
bash "$DEMO" > /tmp/confirm-demo-without.$$ 2>&1; without=$?
echo "CONFIRM: baseline_rc=$brc demo_with_patch_rc=$with demo_without_patch_rc=$without"
rm -f /tmp/confirm-baseline.$$ /tmp/confirm-demo-with.$$ /tmp/confirm-demo-without.$$
[ $brc -eq 0 ] && [ $with -ne 0 ] && [ $without -eq 0 ]
