#!/bin/bash
# usage: tools/try_seed_iso.sh <patch.diff> <Cxx> [tier]
# Tries a seeded change WITHOUT touching /repo, /verif/build or /verif/evidence: a scratch worktree of
# /repo's HEAD gets the patch, binaries go to a scratch build directory, evidence and replays to a
# scratch output directory; all three are removed afterwards.  Several of these (and ordinary checks)
# can run side by side.  Prints the check's tail and "exit=<status>".
set -u
if [ "$1" = "-" ]; then P=-; else P=$(readlink -f "$1"); fi; ID=$2; TIER=${3:-quick}       # "-": no change, the tree as it is
W=$(mktemp -d /tmp/iso-XXXXXX)
trap 'git -C /repo worktree remove --force "$W/repo" >/dev/null 2>&1; rm -rf "$W"; git -C /repo worktree prune' EXIT
git -C /repo worktree add --detach "$W/repo" HEAD >/dev/null 2>&1 || { echo "cannot create worktree"; exit 9; }
if [ "$P" != "-" ]; then (cd "$W/repo" && git apply "$P") || { echo "patch does not apply"; echo "exit=9"; exit 0; }; fi
mkdir -p "$W/build" "$W/out"
cp -a /verif/coq "$W/coq"          # C20 regenerates a file in there; compiled files come along
# the extracted model does not depend on the repository: reuse the binary
if [ -d /verif/build/model ]; then cp -a /verif/build/model "$W/build/model"; fi
cd /verif && DWGREP_REPO="$W/repo" VERIF_BUILD="$W/build" VERIF_OUT="$W/out" VERIF_COQ="$W/coq" ./check "$ID" --tier "$TIER" > "$W/log" 2>&1
rc=$?
tail -6 "$W/log" | cut -c1-400
echo "exit=$rc"
exit 0
