#!/bin/bash
# usage: tools/all_seeds_iso.sh [-j N] [Cxx ...]  -- every stored seed through tools/try_seed_iso.sh (scratch copies,
# N at a time, default 4); one line per seed: detected / MISSED / does-not-apply
cd /verif || exit 9
J=4
if [ "${1:-}" = "-j" ]; then J=$2; shift 2; fi
sel="$*"
one() {
  d=$1; id=$(basename "$d"); prop=${id%-*}
  out=$(/verif/tools/try_seed_iso.sh "$d/patch.diff" "$prop" 2>&1)
  if echo "$out" | grep -q "patch does not apply"; then echo "$id does-not-apply"
  elif echo "$out" | grep -q "^VIOLATION property=$prop "; then echo "$id detected"
  elif echo "$out" | grep -q "exit=1"; then echo "$id CHECK-BROKE: $(echo "$out" | tail -3 | head -1 | cut -c1-120)"
  else echo "$id MISSED: $(echo "$out" | tail -2 | head -1 | cut -c1-120)"; fi
}
export -f one
for d in seeded/*/; do
  id=$(basename "$d"); prop=${id%-*}
  if [ -n "$sel" ] && ! echo " $sel " | grep -q " $prop "; then continue; fi
  echo "$d"
done | xargs -P "$J" -I{} bash -c 'one {}'
