#!/bin/bash
# usage: tools/round.sh <Cxx>   -- confirms and tries (isolated) both mutants a sub-agent left in /tmp/seed-<Cxx>/OUT
p=$1
for k in 1 2; do
  c=$(timeout 3000 /verif/tools/confirm_seed.sh /tmp/seed-$p /tmp/seed-$p/OUT/mutant$k.diff /tmp/seed-$p/OUT/demo$k.sh 2>&1 | tail -1)
  t=$(/verif/tools/try_seed_iso.sh /tmp/seed-$p/OUT/mutant$k.diff $p 2>&1 | grep -v "^KNOWN" | tail -4 | cut -c1-300)
  echo "=== $p mutant$k :: $c"; echo "$t"
done
